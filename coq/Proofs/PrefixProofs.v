(* C06: length prefixes. About Model/Prefix.v. *)
From Iso Require Import Model.Base Model.Encoding Model.Prefix Gen.EbcdicTables
     Proofs.BaseLemmas Proofs.EncodingProofs Proofs.DigitsProofs.
From Coq Require Import ZifyBool ZifyNat ZifyN.
Ltac Zify.zify_post_hook ::= Z.div_mod_to_equations.

Definition go_len (n : Z) : Prop := 0 <= n <= max_int.
(* the 43 exported prefixers: any family, fixed or a positive digit count, or BerTLV (None.Fixed is not
   self-delimiting and outside the property) *)
Definition wf_pref (p : prefixer) : Prop := match p with PVar _ d => (0 < d)%nat | PNone => False | _ => True end.

(* what the digit count can express *)
Definition pref_fits (p : prefixer) (n : Z) : bool :=
  match p with
  | PVar PfBinary d => (n <=? 4294967295) && (n <? 256 ^ Z.of_nat d)
  | PVar PfHex d => n <? 256 ^ Z.of_nat d
  | PVar _ d => n <? 10 ^ Z.of_nat d
  | _ => true
  end.

(* EncodeLength fails exactly when n exceeds the maximum or does not fit the digit count
   (fixed prefixers: when n differs from the configured length; BerTLV: maximum 0 = none) *)
Definition enc_must_fail (p : prefixer) (max n : Z) : bool :=
  match p with
  | PNone => false
  | PFixed _ => negb (n =? max)
  | PBerTLV => negb (max =? 0) && (max <? n)
  | PVar _ _ => (max <? n) || negb (pref_fits p n)
  end.

(* the documented alphabet *)
Definition pref_alphabet (p : prefixer) (w : bytes) : bool :=
  match p with
  | PVar PfASCII _ => forallb is_digit w
  | PVar PfBCD _ => match bcd_unpack w with Some _ => true | None => false end
  | PVar PfHex _ => forallb (fun c => ((48 <=? bz c) && (bz c <=? 57)) || ((65 <=? bz c) && (bz c <=? 70))) w
  | PVar PfEBCDIC _ => forallb (fun c => (240 <=? bz c) && (bz c <=? 249)) w
  | PVar PfEBCDIC1047 _ => forallb (fun c => (240 <=? bz c) && (bz c <=? 249)) w
  | _ => true
  end.

(* ---------------- decimal families ---------------- *)
Lemma decimal_ok d max n s : (0 < d)%nat -> go_len n -> decimal_prefix_str d max n = Ok s ->
  s = sprintf0d d n /\ length s = d /\ forallb is_digit s = true /\ atoi s = Some n /\ n <= max /\ n < 10 ^ Z.of_nat d.
Proof.
  intros Hd Hn H. unfold decimal_prefix_str in H. unfold go_len in Hn.
  assert (Hn' : 0 <= n < ten40) by (unfold max_int, ten40 in *; lia).
  destruct (max <? n) eqn:E1; [discriminate|]. destruct (d <? length (itoa n))%nat eqn:E2; [discriminate|].
  assert (s = sprintf0d d n) by congruence. subst s.
  split; [reflexivity|]. split; [apply sprintf0d_len; lia|]. split; [apply sprintf0d_digits; exact Hn|].
  split; [apply atoi_sprintf0d; exact Hn|]. split; [lia|]. apply itoa_len_iff; lia.
Qed.

Lemma decimal_fails_iff d max n : (0 < d)%nat -> go_len n ->
  is_ok (decimal_prefix_str d max n) = negb ((max <? n) || negb (n <? 10 ^ Z.of_nat d)).
Proof.
  intros Hd Hn. unfold go_len in Hn. assert (Hn' : 0 <= n < ten40) by (unfold max_int, ten40 in *; lia).
  unfold decimal_prefix_str. destruct (max <? n) eqn:E1; [reflexivity|]. cbn [orb].
  pose proof (itoa_len_iff n d Hn' Hd) as Hi.
  destruct (d <? length (itoa n))%nat eqn:E2; cbn [is_ok]; lia.
Qed.

Lemma digits_ascii s : forallb is_digit s = true -> all_ascii s = true.
Proof.
  unfold all_ascii. intros H. apply forallb_forall. intros b Hb. rewrite forallb_forall in H.
  specialize (H b Hb). unfold is_digit in H. lia.
Qed.

Lemma bcd_encode_len s w : enc_encode EncBCD s = Ok w -> zlen w = (zlen s + 1) / 2.
Proof.
  cbn [enc_encode]. destruct (Nat.even (length s)) eqn:E; cbv zeta iota beta.
  - destruct (all_digits s); [|discriminate]. intros H. assert (w = bcd_pack s) by congruence. subst w.
    pose proof (zlen_bcd_pack s E). pose proof (even_zlen s E). lia.
  - destruct (all_digits (x30 :: s)); [|discriminate]. intros H. assert (w = bcd_pack (x30 :: s)) by congruence. subst w.
    pose proof (zlen_bcd_pack _ (even_length_cons_odd x30 s E)) as HL. pose proof (odd_zlen s E). rewrite zlen_cons in HL. lia.
Qed.

Lemma digit_ebcdic_range : forall b, is_digit b = true ->
  (240 <=? bz (tbl ebcdic_a2e b)) && (bz (tbl ebcdic_a2e b) <=? 249) = true /\
  (240 <=? bz (tbl cp1047_enc b)) && (bz (tbl cp1047_enc b) <=? 249) = true.
Proof.
  assert (H : forall b, (negb (is_digit b) || ((240 <=? bz (tbl ebcdic_a2e b)) && (bz (tbl ebcdic_a2e b) <=? 249) &&
                                                 ((240 <=? bz (tbl cp1047_enc b)) && (bz (tbl cp1047_enc b) <=? 249)))) = true)
    by (apply forall_bytes; vm_compute; reflexivity).
  intros b Hb. specialize (H b). rewrite Hb in H. cbn [negb orb] in H. apply andb_prop in H. exact H.
Qed.

(* ---------------- hexadecimal ---------------- *)
Lemma parse_hex_gen l acc : parse_hex l acc = gen_value 16 hex_val l acc.
Proof. revert acc. induction l as [|b r IH]; intros acc; cbn [parse_hex gen_value]; [reflexivity|]. destruct (hex_val b); [apply IH|reflexivity]. Qed.

Definition sixteen20 : Z := 16 ^ 20.
Lemma format_hex_spec n : 0 <= n < sixteen20 ->
  exists k, (0 < k <= 20)%nat /\ length (format_hex_upper n) = k /\
            (forall a, parse_hex (format_hex_upper n) a = Some (a * 16 ^ Z.of_nat k + n)) /\
            (forall d : nat, (0 < d)%nat -> ((k <= d)%nat <-> n < 16 ^ Z.of_nat d)).
Proof.
  intros Hn. unfold format_hex_upper. replace (n <? 0) with false by lia. unfold hexdigits_fuel.
  destruct (gen_digits_spec 16 hex_digit_upper hex_val ltac:(lia) hex_val_digit 20%nat n [] ltac:(lia) Hn) as (ds & Heq & Hlen & Hv & Hub & Hlb).
  rewrite app_nil_r in Heq. rewrite Heq. exists (length ds). split; [lia|]. split; [reflexivity|]. split.
  - intros a. rewrite parse_hex_gen. apply Hv.
  - intros d Hd. pose proof (gen_digits_len_iff 16 hex_digit_upper hex_val ltac:(lia) hex_val_digit 20%nat n d ltac:(lia) Hn Hd) as Hi.
    rewrite Heq in Hi. exact Hi.
Qed.

Lemma parse_hex_nonneg l acc v : 0 <= acc -> parse_hex l acc = Some v -> 0 <= v.
Proof.
  revert acc. induction l as [|b r IH]; intros acc Ha H; cbn [parse_hex] in H.
  - inversion H; lia.
  - destruct (hex_val b) as [d|] eqn:E; [|discriminate]. apply (IH (acc * 16 + d)); [|exact H].
    unfold hex_val in E. pose proof (bz_range b).
    repeat match type of E with context [if ?c then _ else _] => destruct c eqn:? end; inversion E; lia.
Qed.

Lemma parse_hex_chars l acc v : parse_hex l acc = Some v -> forallb is_hex_char l = true.
Proof.
  revert acc. induction l as [|b r IH]; intros acc H; cbn [parse_hex] in H; [reflexivity|].
  cbn [forallb]. unfold is_hex_char at 1. destruct (hex_val b); [|discriminate]. exact (IH _ H).
Qed.

Lemma hexdigits_alphabet n : 0 <= n < sixteen20 ->
  forallb (fun c => ((48 <=? bz c) && (bz c <=? 57)) || ((65 <=? bz c) && (bz c <=? 70))) (format_hex_upper n) = true.
Proof.
  intros Hn. unfold format_hex_upper. replace (n <? 0) with false by lia. unfold hexdigits_fuel.
  assert (G : forall fuel m acc, 0 <= m ->
            forallb (fun c => ((48 <=? bz c) && (bz c <=? 57)) || ((65 <=? bz c) && (bz c <=? 70))) acc = true ->
            forallb (fun c => ((48 <=? bz c) && (bz c <=? 57)) || ((65 <=? bz c) && (bz c <=? 70))) (gen_digits 16 hex_digit_upper fuel m acc) = true).
  { induction fuel as [|k IH]; intros m acc Hm Ha; cbn [gen_digits]; [exact Ha|].
    assert (Hd : forallb (fun c => ((48 <=? bz c) && (bz c <=? 57)) || ((65 <=? bz c) && (bz c <=? 70))) (hex_digit_upper (m mod 16) :: acc) = true).
    { cbn [forallb]. rewrite Ha. unfold hex_digit_upper. destruct (m mod 16 <? 10) eqn:E; rewrite bz_zb by lia; lia. }
    destruct (m / 16 =? 0); [exact Hd|]. apply IH; [lia|exact Hd]. }
  apply G; [lia|reflexivity].
Qed.

(* ---------------- round trip: every prefixer, every Go length ---------------- *)
Theorem pref_roundtrip p max n w : wf_pref p -> go_len n -> enc_len p max n = Ok w ->
  (p <> PBerTLV -> zlen w = pref_width p) /\ pref_alphabet p w = true /\
  forall rest, dec_len p max (w ++ rest) = Ok (n, zlen w).
Proof.
  intros Hwf Hn He. pose proof Hn as Hn0. unfold go_len in Hn0.
  destruct p as [f|f d| |]; cbn [wf_pref] in Hwf.
  - (* Fixed *) cbn [enc_len] in He. destruct (n =? max) eqn:E; [|discriminate]. assert (w = []) by congruence. subst w.
    split; [reflexivity|]. split; [reflexivity|]. intros rest. cbn [dec_len app]. f_equal. f_equal. lia.
  - destruct f.
    + (* ASCII *) cbn [enc_len] in He. destruct (decimal_ok d max n w Hwf Hn He) as (_ & Hl & Hdig & Ha & Hmx & _).
      assert (Hz : zlen w = Z.of_nat d) by (unfold zlen; lia).
      split; [intros _; exact Hz|]. split; [exact Hdig|]. intros rest. cbn [dec_len]. cbv zeta.
      pose proof (zlen_nonneg rest). zlens. replace (zlen w + zlen rest <? Z.of_nat d) with false by lia.
      rewrite <- Hz, ztake_app, Ha. unfold check_decoded. replace (n <? 0) with false by lia. replace (max <? n) with false by lia. reflexivity.
    + (* BCD *) cbn [enc_len] in He. destruct (decimal_prefix_str d max n) as [s| | |] eqn:Es; try discriminate. cbn [obind] in He.
      destruct (decimal_ok d max n s Hwf Hn Es) as (_ & Hl & Hdig & Ha & Hmx & _).
      destruct (enc_roundtrip EncBCD s Hdig) as (w' & Hw' & Hrt). rewrite Hw' in He. assert (w' = w) by congruence. subst w'.
      pose proof (bcd_encode_len s w Hw') as HL. assert (Hs : zlen s = Z.of_nat d) by (unfold zlen; lia).
      cbn [enc_units enc_canon] in Hrt.
      split; [intros _; cbn [pref_width]; lia|]. split.
      { cbn [pref_alphabet]. specialize (Hrt []). rewrite app_nil_r in Hrt. unfold enc_decode in Hrt.
        destruct (zlen s <? 0); [discriminate|]. destruct (zlen w <? (zlen s + 1) / 2); [discriminate|].
        rewrite <- HL, ztake_all in Hrt by lia. destruct (bcd_unpack w); [reflexivity|discriminate]. }
      intros rest. cbn [dec_len]. cbv zeta. pose proof (zlen_nonneg rest). zlens.
      replace (zlen w + zlen rest <? (Z.of_nat d + 1) / 2) with false by lia.
      replace ((Z.of_nat d + 1) / 2) with (zlen w) by lia. rewrite ztake_app.
      specialize (Hrt []). rewrite app_nil_r, Hs in Hrt. rewrite Hrt. cbn [obind]. rewrite Ha.
      unfold check_decoded. replace (n <? 0) with false by lia. replace (max <? n) with false by lia. reflexivity.
    + (* Binary *) cbn [enc_len] in He. destruct (max <? n) eqn:E1; [discriminate|]. destruct (n <? 0) eqn:E2; [discriminate|].
      destruct (4294967295 <? n) eqn:E3; [discriminate|]. cbv zeta in He.
      destruct (d <? length (be_bytes n))%nat eqn:E4; [discriminate|].
      assert (w = repeat x00 (d - length (be_bytes n)) ++ be_bytes n) by congruence. subst w. clear He.
      assert (Hn2 : 0 <= n < two320) by (unfold two320; lia).
      destruct (be_bytes_spec n Hn2) as (Hv & _ & Hlen & _).
      assert (Hl4 : (length (be_bytes n) <= 4)%nat) by (apply (Hlen 4%nat); cbn; lia).
      set (res := be_bytes n) in *. set (k := (d - length res)%nat).
      assert (Hz : zlen (repeat x00 k ++ res) = Z.of_nat d) by (zlens; unfold zlen, k; lia).
      split; [intros _; exact Hz|]. split; [reflexivity|]. intros rest. cbn [dec_len]. cbv zeta.
      pose proof (zlen_nonneg rest). rewrite zlen_app, Hz. replace (Z.of_nat d + zlen rest <? Z.of_nat d) with false by lia.
      rewrite (ztake_app_eq _ rest _ Hz).
      (* the leading extra bytes are zeros, and what is left is zeros ++ res *)
      assert (Hsplit : exists j, ztake (Z.of_nat d - 4) (repeat x00 k ++ res) = repeat x00 j /\
                                 exists j', zdrop (Z.of_nat d - 4) (repeat x00 k ++ res) = repeat x00 j' ++ res).
      { unfold ztake, zdrop. set (m := Z.to_nat (Z.of_nat d - 4)). assert (Hm : (m <= k)%nat) by (unfold m, k; lia).
        exists m. split.
        - rewrite firstn_app, firstn_repeat_le by exact Hm. replace (m - length (repeat x00 k))%nat with 0%nat by (rewrite repeat_length; lia).
          cbn [firstn]. apply app_nil_r.
        - exists (k - m)%nat. rewrite skipn_app, skipn_repeat_le by exact Hm. replace (m - length (repeat x00 k))%nat with 0%nat by (rewrite repeat_length; lia).
          reflexivity. }
      destruct Hsplit as (j & Hj & j' & Hj'). rewrite Hj, Hj'.
      replace (forallb (Byte.eqb x00) (repeat x00 j)) with true
        by (symmetry; apply forallb_forall; intros b Hb; apply repeat_spec in Hb; subst b; reflexivity).
      cbn [negb]. rewrite be_val_zeros, Hv. unfold check_decoded. rewrite E2, E1. reflexivity.
    + (* Hex *) cbn [enc_len] in He. destruct (max <? n) eqn:E1; [discriminate|].
      destruct (2 ^ (Z.of_nat d * 8) - 1 <? n) eqn:E2; [discriminate|]. cbv zeta in He.
      assert (w = repeat x30 (d * 2 - length (format_hex_upper n)) ++ format_hex_upper n) by congruence. subst w. clear He.
      assert (Hp : 2 ^ (Z.of_nat d * 8) = 256 ^ Z.of_nat d).
      { rewrite Z.mul_comm, Z.pow_mul_r by lia. reflexivity. }
      assert (Hp2 : 16 ^ Z.of_nat (d * 2) = 256 ^ Z.of_nat d).
      { rewrite Nat2Z.inj_mul, Z.mul_comm, Z.pow_mul_r by lia. reflexivity. }
      assert (Hn2 : 0 <= n < sixteen20) by (unfold sixteen20, max_int in *; lia).
      destruct (format_hex_spec n Hn2) as (k & Hk & Hlen & Hv & Hfit).
      assert (Hkd : (k <= d * 2)%nat) by (apply Hfit; [lia|]; lia).
      set (s := format_hex_upper n) in *.
      assert (Hz : zlen (repeat x30 (d * 2 - length s) ++ s) = 2 * Z.of_nat d) by (zlens; unfold zlen; lia).
      split; [intros _; exact Hz|]. split.
      { cbn [pref_alphabet]. rewrite forallb_app. apply andb_true_intro. split.
        - apply forallb_forall. intros b Hb. apply repeat_spec in Hb. subst b. reflexivity.
        - apply hexdigits_alphabet. exact Hn2. }
      intros rest. cbn [dec_len]. cbv zeta. pose proof (zlen_nonneg rest). rewrite zlen_app, Hz.
      replace (2 * Z.of_nat d + zlen rest <? 2 * Z.of_nat d) with false by lia.
      rewrite (ztake_app_eq _ rest _ Hz). unfold parse_uint16.
      destruct (repeat x30 (d * 2 - length s) ++ s) as [|c t] eqn:El.
      { rewrite zlen_nil in Hz. lia. }
      rewrite <- El. rewrite parse_hex_gen, gen_value_app, (gen_value_repeat0 16 hex_val x30) by reflexivity.
      rewrite <- parse_hex_gen, Hv. replace (0 * 16 ^ Z.of_nat (d * 2 - length s) * 16 ^ Z.of_nat k + n) with n by lia.
      replace (n <? 2 ^ (Z.of_nat d * 8)) with true by lia. rewrite E1. reflexivity.
    + (* EBCDIC *) cbn [enc_len] in He. destruct (decimal_prefix_str d max n) as [s| | |] eqn:Es; try discriminate. cbn [obind] in He.
      destruct (decimal_ok d max n s Hwf Hn Es) as (_ & Hl & Hdig & Ha & Hmx & _).
      destruct (enc_roundtrip EncEBCDIC s eq_refl) as (w' & Hw' & Hrt). rewrite Hw' in He. assert (w' = w) by congruence. subst w'.
      cbn [enc_encode] in Hw'. assert (w = map (tbl ebcdic_a2e) s) by congruence.
      assert (Hs : zlen s = Z.of_nat d) by (unfold zlen; lia). assert (Hz : zlen w = Z.of_nat d) by (subst w; zlens; exact Hs).
      cbn [enc_units enc_canon] in Hrt.
      split; [intros _; exact Hz|]. split.
      { cbn [pref_alphabet]. subst w. rewrite forallb_forall in Hdig. apply forallb_forall. intros b Hb.
        apply in_map_iff in Hb. destruct Hb as (c & <- & Hc). apply (digit_ebcdic_range c (Hdig c Hc)). }
      intros rest. cbn [dec_len]. cbv zeta. pose proof (zlen_nonneg rest). rewrite zlen_app.
      replace (zlen w + zlen rest <? Z.of_nat d) with false by lia. rewrite <- Hz, ztake_app.
      specialize (Hrt []). rewrite app_nil_r, Hs, <- Hz in Hrt. rewrite Hrt. cbn [obind]. rewrite Ha.
      unfold check_decoded. replace (n <? 0) with false by lia. replace (max <? n) with false by lia. reflexivity.
    + (* EBCDIC1047 *) cbn [enc_len] in He. destruct (decimal_prefix_str d max n) as [s| | |] eqn:Es; try discriminate. cbn [obind] in He.
      destruct (decimal_ok d max n s Hwf Hn Es) as (_ & Hl & Hdig & Ha & Hmx & _).
      destruct (enc_roundtrip EncEBCDIC1047 s (digits_ascii s Hdig)) as (w' & Hw' & Hrt). rewrite Hw' in He. assert (w' = w) by congruence. subst w'.
      cbn [enc_encode] in Hw'. rewrite (cp1047_encode_ascii s (digits_ascii s Hdig)) in Hw'. assert (w = map (tbl cp1047_enc) s) by congruence.
      assert (Hs : zlen s = Z.of_nat d) by (unfold zlen; lia). assert (Hz : zlen w = Z.of_nat d) by (subst w; zlens; exact Hs).
      cbn [enc_units enc_canon] in Hrt.
      split; [intros _; exact Hz|]. split.
      { cbn [pref_alphabet]. subst w. rewrite forallb_forall in Hdig. apply forallb_forall. intros b Hb.
        apply in_map_iff in Hb. destruct Hb as (c & <- & Hc). apply (digit_ebcdic_range c (Hdig c Hc)). }
      intros rest. cbn [dec_len]. cbv zeta. pose proof (zlen_nonneg rest). rewrite zlen_app.
      replace (zlen w + zlen rest <? Z.of_nat d) with false by lia. rewrite <- Hz, ztake_app.
      specialize (Hrt []). rewrite app_nil_r, Hs, <- Hz in Hrt. rewrite Hrt. cbn [obind]. rewrite Ha.
      unfold check_decoded. replace (n <? 0) with false by lia. replace (max <? n) with false by lia. reflexivity.
  - (* BerTLV *) cbn [enc_len] in He. destruct (negb (max =? 0) && (max <? n)) eqn:E1; [discriminate|].
    destruct (n <? 0) eqn:E2; [discriminate|]. split; [intros C; contradiction|]. split; [reflexivity|].
    destruct (n <=? 127) eqn:E3.
    + assert (w = [zb n]) by congruence. subst w. intros rest. cbn [dec_len app]. rewrite bz_zb by lia.
      replace (n <? 128) with true by lia. rewrite E1. reflexivity.
    + cbv zeta in He. assert (w = zb (128 + zlen (be_bytes n)) :: be_bytes n) by congruence. subst w. clear He.
      assert (Hn2 : 0 <= n < two320) by (unfold two320, max_int in *; lia).
      destruct (be_bytes_spec n Hn2) as (Hv & _ & Hlen & _).
      assert (Hl8 : (length (be_bytes n) <= 8)%nat) by (apply (Hlen 8%nat); unfold max_int in *; cbn; lia).
      intros rest. cbn [dec_len app]. pose proof (zlen_nonneg (be_bytes n)). pose proof (zlen_nonneg rest).
      assert (zlen (be_bytes n) <= 8) by (unfold zlen; lia).
      rewrite bz_zb by lia. replace (128 + zlen (be_bytes n) <? 128) with false by lia.
      replace (128 + zlen (be_bytes n) - 128) with (zlen (be_bytes n)) by lia.
      rewrite zlen_app. replace (zlen (be_bytes n) + zlen rest <? zlen (be_bytes n)) with false by lia.
      rewrite ztake_app, Hv. replace (max_int <? n) with false by lia. rewrite E1. rewrite zlen_cons. reflexivity.
  - (* None *) contradiction.
Qed.

(* ---------------- EncodeLength fails exactly when it must ---------------- *)
Lemma encode_digits_ok e s : (e = EncBCD \/ e = EncEBCDIC \/ e = EncEBCDIC1047) -> forallb is_digit s = true ->
  is_ok (enc_encode e s) = true.
Proof.
  intros He Hd. assert (Hdom : enc_dom e s = true).
  { destruct He as [->|[->| ->]]; cbn [enc_dom]; [exact Hd | reflexivity | apply digits_ascii; exact Hd]. }
  destruct (enc_roundtrip e s Hdom) as (w & Hw & _). rewrite Hw. reflexivity.
Qed.

Lemma enc_encode_total e s : is_ok (enc_encode e s) || is_err (enc_encode e s) = true.
Proof.
  destruct e; cbn [enc_encode]; cbv zeta;
    repeat match goal with
           | |- context [if ?c then _ else _] => destruct c
           | |- context [match ?x with Some _ => _ | None => _ end] => destruct x
           end; reflexivity.
Qed.

Lemma decimal_total d max n : is_ok (decimal_prefix_str d max n) || is_err (decimal_prefix_str d max n) = true.
Proof. unfold decimal_prefix_str. destruct (max <? n); [reflexivity|]. destruct (d <? length (itoa n))%nat; reflexivity. Qed.

(* EncodeLength never panics: it returns bytes or an error *)
Lemma enc_len_total p max n : is_ok (enc_len p max n) || is_err (enc_len p max n) = true.
Proof.
  assert (Hdec : forall d e, is_ok (do s <- decimal_prefix_str d max n; enc_encode e s) ||
                             is_err (do s <- decimal_prefix_str d max n; enc_encode e s) = true).
  { intros d e. pose proof (decimal_total d max n) as Ht.
    destruct (decimal_prefix_str d max n) as [s| | |]; cbn [obind is_ok is_err] in *; try discriminate; try reflexivity.
    apply enc_encode_total. }
  destruct p as [f|f d| |]; cbn [enc_len].
  - destruct (n =? max); reflexivity.
  - destruct f; try apply Hdec; try apply decimal_total; cbv zeta;
      repeat match goal with |- context [if ?c then _ else _] => destruct c end; reflexivity.
  - cbv zeta. repeat match goal with |- context [if ?c then _ else _] => destruct c end; reflexivity.
  - reflexivity.
Qed.

Theorem pref_enc_fails_iff p max n : wf_pref p -> go_len n ->
  is_ok (enc_len p max n) = negb (enc_must_fail p max n) /\
  is_err (enc_len p max n) = enc_must_fail p max n.
Proof.
  intros Hwf Hn. pose proof Hn as Hn0. unfold go_len in Hn0.
  assert (H : is_ok (enc_len p max n) = negb (enc_must_fail p max n)).
  { destruct p as [f|f d| |]; cbn [wf_pref] in Hwf; [| | |contradiction].
    - cbn [enc_len enc_must_fail]. destruct (n =? max); reflexivity.
    - assert (Hdec : forall e, (e = EncBCD \/ e = EncEBCDIC \/ e = EncEBCDIC1047) ->
                is_ok (do s <- decimal_prefix_str d max n; enc_encode e s) = negb ((max <? n) || negb (n <? 10 ^ Z.of_nat d))).
      { intros e He. rewrite <- (decimal_fails_iff d max n Hwf Hn).
        destruct (decimal_prefix_str d max n) as [s| | |] eqn:Es; cbn [obind is_ok]; try reflexivity.
        destruct (decimal_ok d max n s Hwf Hn Es) as (_ & _ & Hdig & _). apply encode_digits_ok; assumption. }
      destruct f; cbn [enc_len enc_must_fail pref_fits].
      + apply decimal_fails_iff; assumption.
      + apply Hdec; auto.
      + destruct (max <? n) eqn:E1; [reflexivity|]. replace (n <? 0) with false by lia. cbn [orb].
        destruct (4294967295 <? n) eqn:E3; [cbn [is_ok]; lia|]. cbv zeta.
        assert (Hn2 : 0 <= n < two320) by (unfold two320; lia).
        destruct (be_bytes_spec n Hn2) as (_ & _ & Hlen & _). specialize (Hlen d).
        destruct (d <? length (be_bytes n))%nat eqn:E4; cbn [is_ok]; lia.
      + destruct (max <? n) eqn:E1; [reflexivity|]. cbn [orb].
        assert (Hp : 2 ^ (Z.of_nat d * 8) = 256 ^ Z.of_nat d) by (rewrite Z.mul_comm, Z.pow_mul_r by lia; reflexivity).
        destruct (2 ^ (Z.of_nat d * 8) - 1 <? n) eqn:E2; cbn [is_ok]; lia.
      + apply Hdec; auto.
      + apply Hdec; auto.
    - cbn [enc_len enc_must_fail]. destruct (negb (max =? 0) && (max <? n)); [reflexivity|].
      replace (n <? 0) with false by lia. destruct (n <=? 127); reflexivity. }
  split; [exact H|]. pose proof (enc_len_total p max n) as Ht.
  destruct (enc_len p max n); cbn [is_ok is_err orb] in *; destruct (enc_must_fail p max n); cbn [negb] in *; congruence.
Qed.

(* ---------------- DecodeLength: bounded, exact read, rejects short and non-numeral prefixes ---------------- *)
Definition pref_bounded (p : prefixer) (max : Z) : bool :=
  match p with PBerTLV => negb (max =? 0) | PNone => false | _ => true end.

Theorem pref_dec_bounded p max d n r : 0 <= max -> dec_len p max d = Ok (n, r) ->
  0 <= n /\ (pref_bounded p max = true -> n <= max) /\ 0 <= r <= zlen d /\ (p <> PBerTLV -> r = pref_width p).
Proof.
  intros Hmax H. pose proof (zlen_nonneg d) as Hd0.
  assert (Hchk : forall m n' r' k, check_decoded m n' k = Ok (n', r') -> 0 <= n' <= m /\ r' = k).
  { intros m n' r' k. unfold check_decoded. destruct (n' <? 0) eqn:A; [discriminate|]. destruct (m <? n') eqn:B; [discriminate|].
    intros Hc. assert (k = r') by congruence. lia. }
  destruct p as [f|f dg| |].
  - cbn [dec_len] in H. assert (n = max /\ r = 0) as [-> ->] by (split; congruence).
    cbn [pref_width]. repeat split; try lia.
  - destruct f; cbn [dec_len pref_width pref_bounded] in *; cbv zeta in H.
    + destruct (zlen d <? Z.of_nat dg) eqn:E; [discriminate|]. destruct (atoi _) as [m|]; [|discriminate].
      assert (m = n) by (unfold check_decoded in H; repeat match type of H with context [if ?c then _ else _] => destruct c end; congruence). subst m.
      apply Hchk in H. repeat split; try lia.
    + destruct (zlen d <? (Z.of_nat dg + 1) / 2) eqn:E; [discriminate|].
      destruct (enc_decode EncBCD _ _) as [[s rd]| | |]; cbn [obind] in H; try discriminate.
      destruct (atoi s) as [m|]; [|discriminate].
      assert (m = n) by (unfold check_decoded in H; repeat match type of H with context [if ?c then _ else _] => destruct c end; congruence). subst m.
      apply Hchk in H. repeat split; try lia.
    + destruct (zlen d <? Z.of_nat dg) eqn:E; [discriminate|].
      destruct (negb (forallb _ _)); [discriminate|].
      pose proof (be_val_bound (zdrop (Z.of_nat dg - 4) (ztake (Z.of_nat dg) d))) as Hb.
      set (v := be_val (zdrop (Z.of_nat dg - 4) (ztake (Z.of_nat dg) d)) 0) in *.
      assert (v = n) by (unfold check_decoded in H; repeat match type of H with context [if ?c then _ else _] => destruct c end; congruence). subst n.
      apply Hchk in H. repeat split; try lia.
    + destruct (zlen d <? 2 * Z.of_nat dg) eqn:E; [discriminate|].
      destruct (parse_uint16 _ _) as [m|] eqn:Ep; [|discriminate]. destruct (max <? m) eqn:Em; [discriminate|].
      assert (m = n /\ 2 * Z.of_nat dg = r) as [-> <-] by (split; congruence).
      unfold parse_uint16 in Ep. destruct (ztake (2 * Z.of_nat dg) d) eqn:Et; [discriminate|]. rewrite <- Et in Ep.
      destruct (parse_hex _ 0) as [v|] eqn:Ev; [|discriminate]. destruct (v <? _); [|discriminate].
      assert (v = n) by congruence. subst v. apply parse_hex_nonneg in Ev; [|lia]. repeat split; try lia.
    + destruct (zlen d <? Z.of_nat dg) eqn:E; [discriminate|].
      destruct (enc_decode EncEBCDIC _ _) as [[s rd]| | |]; cbn [obind] in H; try discriminate.
      destruct (atoi s) as [m|]; [|discriminate].
      assert (m = n) by (unfold check_decoded in H; repeat match type of H with context [if ?c then _ else _] => destruct c end; congruence). subst m.
      apply Hchk in H. repeat split; try lia.
    + destruct (zlen d <? Z.of_nat dg) eqn:E; [discriminate|].
      destruct (enc_decode EncEBCDIC1047 _ _) as [[s rd]| | |]; cbn [obind] in H; try discriminate.
      destruct (atoi s) as [m|]; [|discriminate].
      assert (m = n) by (unfold check_decoded in H; repeat match type of H with context [if ?c then _ else _] => destruct c end; congruence). subst m.
      apply Hchk in H. repeat split; try lia.
  - cbn [dec_len pref_bounded] in *. destruct d as [|b t]; [discriminate|]. pose proof (bz_range b). rewrite zlen_cons in *. pose proof (zlen_nonneg t).
    destruct (bz b <? 128) eqn:E.
    + destruct (negb (max =? 0) && (max <? bz b)) eqn:E2; [discriminate|].
      assert (bz b = n /\ 1 = r) as [<- <-] by (split; congruence). repeat split; try lia; try (intros C; contradiction).
    + cbv zeta in H. destruct (zlen t <? bz b - 128) eqn:E3; [discriminate|].
      pose proof (be_val_bound (ztake (bz b - 128) t)) as Hb. set (v := be_val (ztake (bz b - 128) t) 0) in *.
      destruct (max_int <? v) eqn:E4; [discriminate|]. destruct (negb (max =? 0) && (max <? v)) eqn:E5; [discriminate|].
      assert (v = n /\ 1 + (bz b - 128) = r) as [<- <-] by (split; congruence). repeat split; try lia; try (intros C; contradiction).
  - cbn [dec_len pref_bounded pref_width] in *. assert (zlen d = n /\ 0 = r) as [<- <-] by (split; congruence).
    repeat split; try lia; try discriminate.
Qed.

(* a prefix that is too short is rejected *)
Theorem pref_dec_rejects_short p max d : p <> PBerTLV -> zlen d < pref_width p -> is_err (dec_len p max d) = true.
Proof.
  intros Hp H. destruct p as [f|f dg| |]; [| |contradiction|]; cbn [pref_width] in H; pose proof (zlen_nonneg d); try lia.
  destruct f; cbn [dec_len pref_width] in *; cbv zeta;
    match goal with |- context [if ?c then _ else _] => replace c with true by lia end; reflexivity.
Qed.

Theorem pref_dec_rejects_short_ber max d :
  (d = [] \/ exists b t, d = b :: t /\ 128 <= bz b /\ zlen t < bz b - 128) -> is_err (dec_len PBerTLV max d) = true.
Proof.
  intros [->|(b & t & -> & Hb & Ht)]; [reflexivity|]. cbn [dec_len]. replace (bz b <? 128) with false by lia. cbv zeta.
  replace (zlen t <? bz b - 128) with true by lia. reflexivity.
Qed.

(* a prefix that is not a number in the prefixer's alphabet is rejected (contrapositive: whatever
   DecodeLength accepts is a numeral; signs and lower-case hex digits are numerals, see C02) *)
Definition pref_numeral (p : prefixer) (w : bytes) : bool :=
  match p with
  | PVar PfASCII _ => signed_digits w
  | PVar PfBCD _ => match bcd_unpack w with Some _ => true | None => false end
  | PVar PfHex _ => forallb is_hex_char w
  | PVar PfEBCDIC _ => signed_digits (map (tbl ebcdic_e2a) w)
  | PVar PfEBCDIC1047 _ => signed_digits (cp1047_decode w)
  | PVar PfBinary d => forallb (Byte.eqb x00) (ztake (Z.of_nat d - 4) w)
  | _ => true
  end.

Theorem pref_dec_numeral p max d n r : dec_len p max d = Ok (n, r) -> pref_numeral p (ztake (pref_width p) d) = true.
Proof.
  intros H. destruct p as [f|f dg| |]; try reflexivity.
  destruct f; cbn [dec_len pref_width pref_numeral] in *; cbv zeta in H.
  - destruct (zlen d <? Z.of_nat dg); [discriminate|]. destruct (atoi _) as [m|] eqn:Ea; [|discriminate]. eapply atoi_shape; exact Ea.
  - destruct (zlen d <? (Z.of_nat dg + 1) / 2) eqn:E; [discriminate|].
    destruct (enc_decode EncBCD _ _) as [[s rd]| | |] eqn:Ed; cbn [obind] in H; try discriminate.
    unfold enc_decode in Ed. destruct (Z.of_nat dg <? 0); [discriminate|].
    destruct (zlen (ztake ((Z.of_nat dg + 1) / 2) d) <? (Z.of_nat dg + 1) / 2) eqn:E2; [discriminate|].
    rewrite ztake_all in Ed by (rewrite zlen_ztake; lia). destruct (bcd_unpack _); [reflexivity|discriminate].
  - destruct (zlen d <? Z.of_nat dg); [discriminate|]. destruct (negb (forallb _ _)) eqn:En; [discriminate|].
    apply negb_false_iff in En. pose proof (zlen_nonneg d).
    destruct (Z_le_gt_dec (Z.of_nat dg - 4) 0) as [L|L].
    + unfold ztake at 1. replace (Z.to_nat (Z.of_nat dg - 4)) with 0%nat by lia. reflexivity.
    + unfold ztake in *. rewrite firstn_firstn in En. rewrite firstn_firstn.
      replace (Init.Nat.min (Z.to_nat (Z.of_nat dg - 4)) (Z.to_nat (Z.of_nat dg))) with (Z.to_nat (Z.of_nat dg - 4)) in * by lia. exact En.
  - destruct (zlen d <? 2 * Z.of_nat dg); [discriminate|]. destruct (parse_uint16 _ _) as [m|] eqn:Ep; [|discriminate].
    unfold parse_uint16 in Ep. destruct (ztake (2 * Z.of_nat dg) d) eqn:Et; [reflexivity|]. rewrite <- Et in *.
    destruct (parse_hex _ 0) eqn:Ev; [|discriminate]. eapply parse_hex_chars; exact Ev.
  - destruct (zlen d <? Z.of_nat dg) eqn:E; [discriminate|].
    destruct (enc_decode EncEBCDIC _ _) as [[s rd]| | |] eqn:Ed; cbn [obind] in H; try discriminate.
    destruct (atoi s) eqn:Ea; [|discriminate]. apply atoi_shape in Ea.
    unfold enc_decode in Ed. destruct (Z.of_nat dg <? 0); [discriminate|]. destruct (zlen (ztake (Z.of_nat dg) d) <? Z.of_nat dg) eqn:E2; [discriminate|].
    rewrite ztake_all in Ed by (rewrite zlen_ztake; lia). assert (s = map (tbl ebcdic_e2a) (ztake (Z.of_nat dg) d)) by congruence. subst s. exact Ea.
  - destruct (zlen d <? Z.of_nat dg) eqn:E; [discriminate|].
    destruct (enc_decode EncEBCDIC1047 _ _) as [[s rd]| | |] eqn:Ed; cbn [obind] in H; try discriminate.
    destruct (atoi s) eqn:Ea; [|discriminate]. apply atoi_shape in Ea.
    unfold enc_decode in Ed. destruct (Z.of_nat dg <? 0); [discriminate|]. destruct (zlen (ztake (Z.of_nat dg) d) <? Z.of_nat dg) eqn:E2; [discriminate|].
    rewrite ztake_all in Ed by (rewrite zlen_ztake; lia). assert (s = cp1047_decode (ztake (Z.of_nat dg) d)) by congruence. subst s. exact Ea.
Qed.
