(* Message state: determinism (independence of map iteration order), purity of the read-only operations,
   JSON totality. About Model/Message.v, Model/Json.v, Model/MessageOps.v. *)
From Coq Require Import Sorting.Permutation Sorting.Sorted ZifyBool ZifyNat.
From Iso Require Import Model.Base Model.Sexp Model.Padding Model.Encoding Model.Prefix Model.Bitmap Model.Spec Model.Field Model.Message
     Model.Json Model.MessageOps Proofs.BaseLemmas.

(* ---------------- sort_z: the unique ascending arrangement, whatever order the map is walked in ---------------- *)
Lemma insert_z_sorted x l : Sorted Z.le l -> Sorted Z.le (insert_z x l).
Proof.
  induction l as [|y r IH]; intros Hs; cbn [insert_z]; [constructor; constructor|].
  inversion Hs as [|? ? Hr Hh]; subst. destruct (y <? x) eqn:E.
  - constructor; [apply IH; exact Hr|]. destruct r as [|z r']; cbn [insert_z]; [constructor; lia|].
    destruct (z <? x); constructor; [inversion Hh; assumption|lia].
  - constructor; [exact Hs|constructor; lia].
Qed.

Lemma sort_z_sorted l : Sorted Z.le (sort_z l).
Proof. induction l as [|x r IH]; cbn; [constructor|apply insert_z_sorted; exact IH]. Qed.

Lemma insert_z_comm x y l : Sorted Z.le l -> insert_z x (insert_z y l) = insert_z y (insert_z x l).
Proof.
  induction l as [|z r IH]; intros Hs.
  - cbn [insert_z]. destruct (y <? x) eqn:A, (x <? y) eqn:B; try reflexivity; try lia. assert (x = y) by lia. subst. reflexivity.
  - inversion Hs as [|? ? Hr Hh]; subst. cbn [insert_z].
    destruct (z <? y) eqn:A, (z <? x) eqn:B; cbn [insert_z]; rewrite ?A, ?B.
    + f_equal. apply IH. exact Hr.
    + replace (y <? x) with false by lia. replace (x <? y) with true by lia. replace (z <? x) with false by lia. reflexivity.
    + replace (x <? y) with false by lia. replace (y <? x) with true by lia. replace (z <? y) with false by lia. reflexivity.
    + destruct (y <? x) eqn:C, (x <? y) eqn:D; cbn [insert_z]; rewrite ?A, ?B; try reflexivity; try lia. assert (x = y) by lia. subst. reflexivity.
Qed.

Theorem sort_z_perm l1 l2 : Permutation l1 l2 -> sort_z l1 = sort_z l2.
Proof.
  intros H. induction H as [|x l l' H IH|x y l|l l' l'' H1 IH1 H2 IH2].
  - reflexivity.
  - cbn [sort_z fold_right]. unfold sort_z in IH. rewrite IH. reflexivity.
  - cbn [sort_z fold_right]. apply insert_z_comm. apply sort_z_sorted.
  - rewrite IH1. exact IH2.
Qed.

Lemma insert_z_perm x l : Permutation (x :: l) (insert_z x l).
Proof.
  induction l as [|y r IH]; cbn [insert_z]; [apply Permutation_refl|]. destruct (y <? x).
  - eapply Permutation_trans; [apply perm_swap|]. apply perm_skip. exact IH.
  - apply Permutation_refl.
Qed.
Lemma sort_z_is_perm l : Permutation l (sort_z l).
Proof.
  induction l as [|x r IH]; cbn; [apply Permutation_refl|].
  eapply Permutation_trans; [apply perm_skip; exact IH|]. apply insert_z_perm.
Qed.

Lemma zremove_perm k l1 l2 : Permutation l1 l2 -> Permutation (zremove k l1) (zremove k l2).
Proof.
  intros H. unfold zremove. induction H as [|x l l' H IH|x y l|l l' l'' H1 IH1 H2 IH2]; cbn [filter].
  - apply Permutation_refl.
  - destruct (negb (k =? x)); [apply perm_skip|]; exact IH.
  - destruct (negb (k =? x)), (negb (k =? y)); try apply Permutation_refl. apply perm_swap.
  - eapply Permutation_trans; eassumption.
Qed.

(* the ids Pack walks through do not depend on the order in which the presence set is enumerated *)
Theorem packable_ids_perm m p1 p2 : Permutation p1 p2 ->
  packable_ids (with_present m p1) = packable_ids (with_present m p2).
Proof.
  intros H. unfold packable_ids. cbn [m_present with_present]. apply sort_z_perm. apply perm_skip. apply zremove_perm. exact H.
Qed.

(* ---------------- Pack is a read-only operation on the message's content ---------------- *)
Lemma m_bitmap_content S m : m_mti (m_bitmap S m) = m_mti m /\ m_fields (m_bitmap S m) = m_fields m /\
  (forall id, id <> 1 -> zmem id (m_present (m_bitmap S m)) = zmem id (m_present m)).
Proof.
  unfold m_bitmap. destruct (m_bmcached m); cbn; repeat split; try reflexivity.
  intros id Hid. unfold zadd. destruct (zmem 1 (m_present m)); [reflexivity|].
  unfold zmem. rewrite existsb_app. cbn. replace (id =? 1) with false by lia. rewrite !orb_false_r. reflexivity.
Qed.

Theorem m_pack_pure S m : let m' := fst (m_pack S m) in
  m_mti m' = m_mti m /\ m_fields m' = m_fields m /\
  (forall id, id <> 1 -> zmem id (m_present m') = zmem id (m_present m)).
Proof.
  cbv zeta. unfold m_pack. destruct (m_bitmap_content S m) as (H1 & H2 & H3).
  destruct (set_bits (ms_bm S) _ _) as [bm [u|e|p|]]; cbn [fst with_bm m_mti m_fields m_present]; repeat split; assumption.
Qed.

(* ---------------- JSON ---------------- *)
(* Marshalling succeeds whenever the message itself can be packed (and only then), and leaves the same state as Pack *)
Theorem m_json_total S m : is_ok (snd (m_json S m)) = is_ok (snd (m_pack S m)) /\ fst (m_json S m) = fst (m_pack S m).
Proof. unfold m_json. destruct (m_pack S m) as [m' [b|e|p|]]; split; reflexivity. Qed.

(* the keys of every JSON object are emitted in the StringsByInt order of the key set, whatever the order of the entries *)
Theorem json_object_order kvs :
  exists body, json_object kvs = [x7b] ++ body ++ [x7d] /\
    body = join [x2c] (map (fun k => x22 :: k ++ [x22; x3a] ++ match blookup k kvs with Some v => v | None => [] end)
                             (sort_tags SortByInt (map fst kvs))).
Proof. eexists. split; reflexivity. Qed.

(* ---------------- the packed bitmap announces exactly the present data elements (C05 / C14) ---------------- *)
From Iso Require Import Proofs.BitmapProofs.
Set Default Timeout 60.

Lemma isset_zeros n m : bm_isset (repeat x00 n) m = false.
Proof.
  unfold bm_isset. destruct ((m <=? 0) || (zlen (repeat x00 n) * 8 <? m)); [reflexivity|].
  rewrite nth_repeat. apply get_bit_x00.
Qed.

(* all continuation positions of blocks 0 .. k-2 *)
Definition conts (B k m : Z) : bool := (1 <=? m) && is_cont B 1 (k - 1) m.

Lemma is_cont_union B k idx m : 1 <= B -> 1 <= k -> k <= idx -> 1 <= m ->
  is_cont B k idx m || is_cont B 1 (k - 1) m = is_cont B 1 idx m.
Proof.
  intros HB Hk Hi Hm. unfold is_cont.
  assert (0 <= (m - 1) / (B * 8)) by (apply Z.div_pos; lia).
  destruct ((m - 1) mod (B * 8) =? 0); cbn [andb]; [|reflexivity].
  destruct (k - 1 <=? (m - 1) / (B * 8)) eqn:A, ((m - 1) / (B * 8) <? idx) eqn:C, (1 - 1 <=? (m - 1) / (B * 8)) eqn:D,
           ((m - 1) / (B * 8) <? k - 1) eqn:E; cbn [andb orb]; try reflexivity; lia.
Qed.

Definition bits_inv (b : bmspec) (bm : bytes) (k : Z) (S : list Z) : Prop :=
  1 <= k /\ zlen bm = k * bm_len b /\ forall m, bm_isset bm m = zmem m S || conts (bm_len b) k m.

Lemma set_bits_inv b : bm_auto b = true -> 1 <= bm_len b ->
  forall ids bm k S bm' , bits_inv b bm k S -> set_bits b ids bm = (bm', Ok tt) ->
  exists k', bits_inv b bm' k' (filter (fun id => negb ((id <? 2) || bm_is_presence_bit b id)) ids ++ S).
Proof.
  intros Ha HB. induction ids as [|id rest IH]; intros bm k S bm' Hinv H; cbn [set_bits] in H.
  - assert (bm' = bm) by congruence. subst. exists k. exact Hinv.
  - cbn [filter]. destruct ((id <? 2) || bm_is_presence_bit b id) eqn:Esk; cbn [negb].
    + apply (IH _ _ _ _ Hinv H).
    + destruct Hinv as (Hk & Hlen & Hbits).
      apply orb_false_iff in Esk. destruct Esk as [E2 Epb].
      destruct (Z_le_gt_dec id (zlen bm * 8)) as [Lin|Lout].
      * destruct (bm_set_inside b bm id ltac:(lia)) as (d & Hd & Hld & Hdb). rewrite Hd in H.
        destruct (negb (bm_isset d id)); [discriminate|].
        assert (Hinv' : bits_inv b d k (id :: S)).
        { split; [exact Hk|]. split; [lia|]. intros m. rewrite Hdb, Hbits. cbn [zmem existsb]. rewrite (Z.eqb_sym m id).
          unfold zmem. destruct (id =? m); reflexivity. }
        destruct (IH _ _ _ _ Hinv' H) as (k' & Hk'). exists k'.
        destruct Hk' as (A & B' & C). split; [exact A|]. split; [exact B'|]. intros m. rewrite C.
        f_equal. unfold zmem. rewrite !existsb_app. cbn [existsb]. 
        destruct (existsb (Z.eqb m) (filter _ rest)), (m =? id), (existsb (Z.eqb m) S); reflexivity.
      * destruct (bm_set_expand b bm id k Ha HB Hk Hlen ltac:(lia)) as (d & Hd & Hld & Hdb). rewrite Hd in H.
        destruct (negb (bm_isset d id)); [discriminate|].
        set (idx := (id - 1) / (bm_len b * 8)) in *.
        assert (Hidx : k <= idx) by (unfold idx; apply Z.div_le_lower_bound; lia).
        assert (Hinv' : bits_inv b d (idx + 1) (id :: S)).
        { split; [lia|]. split; [exact Hld|]. intros m. rewrite Hdb, Hbits. cbn [zmem existsb]. rewrite (Z.eqb_sym m id).
          unfold conts. replace (idx + 1 - 1) with idx by lia.
          destruct (1 <=? m) eqn:E1; cbn [andb].
          - rewrite <- (is_cont_union (bm_len b) k idx m HB Hk Hidx ltac:(lia)).
            unfold zmem. destruct (id =? m), (is_cont (bm_len b) k idx m), (existsb (Z.eqb m) S), (is_cont (bm_len b) 1 (k - 1) m); reflexivity.
          - unfold zmem. destruct (id =? m), (existsb (Z.eqb m) S); reflexivity. }
        destruct (IH _ _ _ _ Hinv' H) as (k' & Hk'). exists k'.
        destruct Hk' as (A & B' & C). split; [exact A|]. split; [exact B'|]. intros m. rewrite C.
        f_equal. unfold zmem. rewrite !existsb_app. cbn [existsb].
        destruct (existsb (Z.eqb m) (filter _ rest)), (m =? id), (existsb (Z.eqb m) S); reflexivity.
Qed.

Lemma zmem_perm i l1 l2 : Permutation l1 l2 -> zmem i l1 = zmem i l2.
Proof.
  intros H. unfold zmem. induction H as [|x l l' H IH|x y l|l l' l'' H1 IH1 H2 IH2]; cbn [existsb]; try congruence.
  destruct (i =? x), (i =? y); reflexivity.
Qed.

Lemma zmem_filter i p l : p i = true -> zmem i (filter p l) = zmem i l.
Proof.
  intros Hp. unfold zmem. induction l as [|x r IH]; [reflexivity|]. cbn [filter existsb].
  destruct (p x) eqn:E; cbn [existsb]; rewrite IH; [reflexivity|].
  destruct (i =? x) eqn:Ei; [|reflexivity]. assert (i = x) by lia. subst. congruence.
Qed.

Lemma zmem_zremove i k l : i <> k -> zmem i (zremove k l) = zmem i l.
Proof. intros H. unfold zremove. apply zmem_filter. apply negb_true_iff. lia. Qed.

Lemma zmem_zremove_same i l : zmem i (zremove i l) = false.
Proof.
  unfold zmem, zremove. induction l as [|x r IH]; [reflexivity|]. cbn [filter].
  destruct (i =? x) eqn:E; cbn [negb]; [exact IH|]. cbn [existsb]. rewrite E, IH. reflexivity.
Qed.

Lemma zlookup_zupdate_same {A} i (v : A) l : (exists w, zlookup i l = Some w) -> zlookup i (zupdate i v l) = Some v.
Proof.
  intros (w & H). induction l as [|[k u] r IH]; [discriminate|]. cbn [zlookup zupdate] in *.
  destruct (i =? k) eqn:E; cbn [zlookup]; rewrite E; [reflexivity|]. apply IH. exact H.
Qed.

(* In every packed message (auto-expanding bitmap) the bits set, continuation bits aside, are exactly the data
   elements present; the same set GetFields reports and - by m_json_total / json_object_order - JSON emits *)
Theorem m_pack_bitmap_agrees S m m' b : bm_auto (ms_bm S) = true -> 1 <= bm_len (ms_bm S) ->
  m_pack S m = (m', Ok b) ->
  forall i, 2 <= i -> bm_is_presence_bit (ms_bm S) i = false -> bm_isset (m_bm m') i = zmem i (m_present m).
Proof.
  intros Ha HB Hp i Hi Hnp. unfold m_pack in Hp.
  destruct (set_bits (ms_bm S) (packable_ids (m_bitmap S m)) (bm_new (ms_bm S))) as [bm [u|e|p|]] eqn:Es; try (inversion Hp; fail).
  assert (m' = with_bm (m_bitmap S m) bm) by congruence. subst m'. cbn [m_bm with_bm]. destruct u.
  assert (Hinv0 : bits_inv (ms_bm S) (bm_new (ms_bm S)) 1 []).
  { split; [lia|]. split; [unfold bm_new; rewrite zlen_repeat; lia|]. intros k. unfold bm_new. rewrite isset_zeros. cbn [zmem existsb orb].
    unfold conts, is_cont. replace (1 - 1) with 0 by lia.
    destruct (1 <=? k) eqn:E; [|reflexivity]. cbn [andb].
    assert (0 <= (k - 1) / (bm_len (ms_bm S) * 8)) by (apply Z.div_pos; lia).
    replace ((k - 1) / (bm_len (ms_bm S) * 8) <? 0) with false by lia. rewrite andb_false_r. reflexivity. }
  destruct (set_bits_inv (ms_bm S) Ha HB _ _ _ _ _ Hinv0 Es) as (k' & _ & _ & Hbits).
  rewrite Hbits, app_nil_r.
  assert (Hc : conts (bm_len (ms_bm S)) k' i = false).
  { unfold conts, is_cont. unfold bm_is_presence_bit in Hnp. rewrite Ha in Hnp. cbn [negb] in Hnp. replace (i <=? 0) with false in Hnp by lia.
    assert ((i - 1) mod (bm_len (ms_bm S) * 8) =? 0 = false).
    { apply Z.eqb_neq. intros Hm. apply Z.eqb_neq in Hnp. apply Hnp.
      apply Z.mod_divide in Hm; [|lia]. destruct Hm as (q & Hq). replace i with (1 + q * (bm_len (ms_bm S) * 8)) by lia.
      rewrite Z.mod_add by lia. apply Z.mod_small. lia. }
    rewrite H. cbn [andb]. apply andb_false_r. }
  rewrite Hc, orb_false_r. rewrite zmem_filter.
  - unfold packable_ids. rewrite <- (zmem_perm i _ _ (sort_z_is_perm _)). cbn [zmem existsb]. replace (i =? 1) with false by lia. cbn [orb].
    fold (zmem i (zremove 1 (m_present (m_bitmap S m)))). rewrite zmem_zremove by lia.
    apply (proj2 (proj2 (m_bitmap_content S m))). lia.
  - rewrite Hnp. replace (i <? 2) with false by lia. reflexivity.
Qed.

(* ---------------- a fixed (non-expanding) bitmap ---------------- *)
Lemma set_bits_inv_fixed b : bm_auto b = false ->
  forall ids bm S bm', (forall m, bm_isset bm m = zmem m S) -> set_bits b ids bm = (bm', Ok tt) ->
  zlen bm' = zlen bm /\ forall m, bm_isset bm' m = zmem m (filter (fun id => negb (id <? 2)) ids ++ S).
Proof.
  intros Ha. assert (Hpb : forall id, bm_is_presence_bit b id = false) by (intros id; unfold bm_is_presence_bit; rewrite Ha; reflexivity).
  induction ids as [|id rest IH]; intros bm S bm' Hbits H; cbn [set_bits] in H.
  - assert (bm' = bm) by congruence. subst. split; [reflexivity|exact Hbits].
  - cbn [filter]. rewrite Hpb, orb_false_r in H. destruct (id <? 2) eqn:E2; cbn [negb].
    + apply (IH _ _ _ Hbits H).
    + destruct (Z_le_gt_dec id (zlen bm * 8)) as [Lin|Lout].
      * destruct (bm_set_inside b bm id ltac:(lia)) as (d & Hd & Hld & Hdb). rewrite Hd in H.
        destruct (negb (bm_isset d id)); [discriminate|].
        destruct (IH d (id :: S) bm') as (Hl & Hb); [|exact H|].
        { intros m. rewrite Hdb, Hbits. cbn [zmem existsb]. reflexivity. }
        split; [lia|]. intros m. rewrite Hb. unfold zmem. rewrite !existsb_app. cbn [existsb].
        destruct (existsb (Z.eqb m) (filter _ rest)), (m =? id), (existsb (Z.eqb m) S); reflexivity.
      * rewrite (bm_set_fixed_noop b bm id Ha) in H by lia. rewrite isset_out in H by lia. discriminate.
Qed.

Theorem m_pack_bitmap_agrees_fixed S m m' b : bm_auto (ms_bm S) = false -> 0 <= bm_len (ms_bm S) ->
  m_pack S m = (m', Ok b) ->
  zlen (m_bm m') = bm_len (ms_bm S) /\ forall i, 2 <= i -> bm_isset (m_bm m') i = zmem i (m_present m).
Proof.
  intros Ha HB0 Hp. unfold m_pack in Hp.
  destruct (set_bits (ms_bm S) (packable_ids (m_bitmap S m)) (bm_new (ms_bm S))) as [bm [u|e|p|]] eqn:Es; try (inversion Hp; fail).
  assert (m' = with_bm (m_bitmap S m) bm) by congruence. subst m'. cbn [m_bm with_bm]. destruct u.
  destruct (set_bits_inv_fixed (ms_bm S) Ha _ _ [] _ (fun k => isset_zeros _ k) Es) as (Hl & Hb).
  split.
  - rewrite Hl. unfold bm_new. rewrite zlen_repeat. lia.
  - intros i Hi. rewrite Hb, app_nil_r. rewrite zmem_filter by (replace (i <? 2) with false by lia; reflexivity).
    unfold packable_ids. rewrite <- (zmem_perm i _ _ (sort_z_is_perm _)). cbn [zmem existsb]. replace (i =? 1) with false by lia. cbn [orb].
    fold (zmem i (zremove 1 (m_present (m_bitmap S m)))). rewrite zmem_zremove by lia.
    apply (proj2 (proj2 (m_bitmap_content S m))). lia.
Qed.
