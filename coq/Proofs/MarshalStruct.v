(* C11: whole structs. Message.Marshal of a struct followed by Message.Unmarshal into a struct of the same type returns
   every non-zero field unchanged and leaves the other fields as they were. About Model/Marshal.v. *)
From Iso Require Import Model.Base Model.Spec Model.Field Model.Message Model.Marshal Proofs.BaseLemmas Proofs.DigitsProofs Proofs.EncodingProofs
     Proofs.FieldProofs Proofs.CompositeProofs Proofs.StateProofs Proofs.MessageRoundtrip Proofs.MarshalProofs.
From Coq Require Import ZifyBool ZifyNat.
Set Default Timeout 120.

(* the documented cells with a non-zero value in the target's canonical form, and the field state Marshal produces *)
Inductive cell : fkind -> gty -> gval -> fstate -> Prop :=
| c_s_str s : s <> [] -> cell KString TStr (VStr s) (SString s)
| c_s_pstr s : s <> [] -> cell KString (TPtr TStr) (VPtr (Some (VStr s))) (SString s)
| c_s_int z : 0 < z <= max_int -> cell KString TInt (VInt z) (SString (itoa z))
| c_s_int64 z : 0 < z <= max_int -> cell KString TInt64 (VInt64 z) (SString (itoa z))
| c_s_pint z : 0 <= z <= max_int -> cell KString (TPtr TInt) (VPtr (Some (VInt z))) (SString (itoa z))
| c_s_pint64 z : 0 <= z <= max_int -> cell KString (TPtr TInt64) (VPtr (Some (VInt64 z))) (SString (itoa z))
| c_s_lib s : cell KString (TLib KString) (VLib (Some (SString s))) (SString s)
| c_n_int64 z : 0 < z <= max_int -> cell KNumeric TInt64 (VInt64 z) (SNumeric z)
| c_n_str z : 0 < z <= max_int -> cell KNumeric TStr (VStr (itoa z)) (SNumeric z)
| c_n_pint64 z : 0 <= z <= max_int -> cell KNumeric (TPtr TInt64) (VPtr (Some (VInt64 z))) (SNumeric z)
| c_n_pstr z : 0 <= z <= max_int -> cell KNumeric (TPtr TStr) (VPtr (Some (VStr (itoa z)))) (SNumeric z)
| c_n_lib z : cell KNumeric (TLib KNumeric) (VLib (Some (SNumeric z))) (SNumeric z)
| c_b_pbytes b : b <> [] -> cell KBinary (TPtr TBytes) (VPtr (Some (VBytes (Some b)))) (SBinary b)
| c_b_str b : b <> [] -> cell KBinary TStr (VStr (hex_encode_lower b)) (SBinary b)
| c_b_pstr b : b <> [] -> cell KBinary (TPtr TStr) (VPtr (Some (VStr (hex_encode_lower b)))) (SBinary b)
| c_b_lib b : cell KBinary (TLib KBinary) (VLib (Some (SBinary b))) (SBinary b)
| c_h_str s : s <> [] -> cell KHex TStr (VStr s) (SHex s)
| c_h_pstr s : s <> [] -> cell KHex (TPtr TStr) (VPtr (Some (VStr s))) (SHex s)
| c_h_pbytes b : b <> [] -> cell KHex (TPtr TBytes) (VPtr (Some (VBytes (Some b)))) (SHex (hex_encode_upper b))
| c_h_lib s : cell KHex (TLib KHex) (VLib (Some (SHex s))) (SHex s).

Lemma hex_lower_nonempty b : b <> [] -> hex_encode_lower b <> [].
Proof. destruct b; [contradiction|]. intros _. cbn [hex_encode_lower]. discriminate. Qed.

Theorem cell_roundtrip k t v st : cell k t v st ->
  documented k t = true /\ g_is_zero v = false /\ prim_marshal k t v = Ok st /\ forall cur, prim_unmarshal st t cur = Ok v.
Proof.
  intros H. destruct H; (split; [reflexivity|]); (split; [cbn [g_is_zero]; try reflexivity; try lia; try (destruct s; [contradiction|reflexivity])|]).
  all: try (pose proof (hex_lower_nonempty b ltac:(assumption)) as Hne; destruct (hex_encode_lower b) eqn:E; [contradiction|reflexivity]).
  all: try (destruct (itoa_atoi z ltac:(lia)) as (_ & Hne); destruct (itoa z) eqn:E; [contradiction|reflexivity]).
  all: unfold prim_marshal; cbn [g_is_zero type_name_has_int negb andb prim_unmarshal]; rewrite ?Bool.andb_false_r.
  all: try (destruct s; [contradiction|]; split; [reflexivity|intros cur; reflexivity]).
  all: try (replace (z =? 0) with false by lia).
  all: try (split; [reflexivity|intros cur; try reflexivity; rewrite (proj1 (itoa_atoi z ltac:(lia))); reflexivity]).
  all: try (destruct (itoa_atoi z ltac:(lia)) as (Ha & Hne); destruct (itoa z) eqn:E; [contradiction|]; rewrite Ha; split; [reflexivity|intros cur; reflexivity]).
  all: try (pose proof (hex_lower_decode b) as Hd; destruct b as [|x r]; [contradiction|]; cbn [hex_encode_lower] in *; rewrite Hd; split; [reflexivity|intros cur; reflexivity]).
  all: try (destruct b; [contradiction|]; split; [reflexivity|intros cur; cbn [prim_unmarshal]; unfold hex_bytes_or_nil; rewrite hex_decode_encode; reflexivity]).
Qed.

(* ---------------- rows of a struct ---------------- *)
Definition row : Type := (gdecl * gty * gval)%type.
Definition rid (r : row) : Z := it_id (index_tag_of (fst (fst r))).
Definition rkeep (r : row) : bool := it_keepzero (index_tag_of (fst (fst r))).
Definition rval (r : row) : gval := snd r.
Definition rty (r : row) : gty := snd (fst r).

Definition get_spec (S : mspec) (id : Z) : option fspec := if id =? 0 then Some (FPrim (ms_mti S)) else zlookup id (ms_fields S).
Definition get_state (m : mstate) (id : Z) : option fstate := if id =? 0 then Some (m_mti m) else zlookup id (m_fields m).

(* a struct field the theorem speaks about: ignored (no index), or bound to the MTI or to a primitive data element,
   holding either a zero value without keepzero or a documented non-zero cell *)
Definition row_ok (S : mspec) (r : row) : Prop :=
  rid r < 0 \/
  (0 <= rid r /\ rid r <> 1 /\ exists p, get_spec S (rid r) = Some (FPrim p) /\
     ((g_is_zero (rval r) = true /\ rkeep r = false) \/ exists st, cell (ps_kind p) (rty r) (rval r) st)).

Definition has_states (S : mspec) (m : mstate) : Prop := forall id s, zlookup id (ms_fields S) = Some s -> exists st, zlookup id (m_fields m) = Some st.

Definition live (r : row) : bool := (0 <=? rid r) && negb (g_is_zero (rval r)).

Lemma marshal_rows S : forall (l : list row) m, Forall (row_ok S) l -> has_states S m -> NoDup (map rid (filter live l)) ->
  exists m', m_marshal_fields S m l = (m', Ok tt) /\ has_states S m' /\
    (forall id, zmem id (m_present m') = zmem id (m_present m) || existsb (fun r => live r && (rid r =? id)) l) /\
    (forall id, existsb (fun r => live r && (rid r =? id)) l = false -> get_state m' id = get_state m id) /\
    (forall r, In r l -> live r = true -> exists p st, get_spec S (rid r) = Some (FPrim p) /\ prim_marshal (ps_kind p) (rty r) (rval r) = Ok st /\ get_state m' (rid r) = Some st).
Proof.
  induction l as [|r rest IH]; intros m Hok Hst Hnd.
  - exists m. split; [reflexivity|]. split; [exact Hst|]. split; [intros id; cbn; rewrite Bool.orb_false_r; reflexivity|]. split; [reflexivity|intros r []].
  - inversion Hok as [|? ? Hr Hrest]; subst. destruct r as ((d, ft), fv). cbn [m_marshal_fields].
    change (it_id (index_tag_of d)) with (rid (d, ft, fv)). set (id := rid (d, ft, fv)) in *.
    destruct Hr as [Hneg|(H0 & H1 & p & Hsp & Hcase)].
    + (* no index *)
      replace (id <? 0) with true by lia.
      assert (Hl : live (d, ft, fv) = false) by (unfold live; fold id; replace (0 <=? id) with false by lia; reflexivity).
      cbn [filter] in Hnd. rewrite Hl in Hnd. destruct (IH m Hrest Hst Hnd) as (m' & Hm & Hs' & Hp & Hu & Hc). exists m'. split; [exact Hm|]. split; [exact Hs'|].
      split; [intros i; rewrite Hp; cbn [existsb]; rewrite Hl; reflexivity|]. split; [intros i Hi; apply Hu; cbn [existsb] in Hi; rewrite Hl in Hi; exact Hi|].
      intros r [<-|Hin] Hlv; [congruence|apply Hc; assumption].
    + replace (id <? 0) with false by lia.
      assert (Hstate : exists st0, get_state m id = Some st0).
      { unfold get_state, get_spec in *. fold id in Hsp. destruct (id =? 0); [eexists; reflexivity|]. apply (Hst id _ Hsp). }
      destruct Hstate as (st0 & Hst0).
      assert (Htarget : (if id =? 0 then Some (FPrim (ms_mti S), m_mti m)
                         else match zlookup id (ms_fields S), zlookup id (m_fields m) with Some s, Some st => Some (s, st) | _, _ => None end) = Some (FPrim p, st0)).
      { unfold get_state, get_spec in *. fold id in Hsp. destruct (id =? 0); [congruence|]. rewrite Hsp, Hst0. reflexivity. }
      rewrite Htarget. destruct Hcase as [(Hz & Hk)|(st & Hcell)].
      * (* zero without keepzero: skipped *)
        change (it_keepzero (index_tag_of d)) with (rkeep (d, ft, fv)). change fv with (rval (d, ft, fv)) at 1. rewrite Hz, Hk. cbn [negb andb].
        assert (Hl : live (d, ft, fv) = false) by (unfold live; rewrite Hz; apply Bool.andb_false_r).
        cbn [filter] in Hnd. rewrite Hl in Hnd. destruct (IH m Hrest Hst Hnd) as (m' & Hm & Hs' & Hp & Hu & Hc). exists m'. split; [exact Hm|]. split; [exact Hs'|].
        split; [intros i; rewrite Hp; cbn [existsb]; rewrite Hl; reflexivity|]. split; [intros i Hi; apply Hu; cbn [existsb] in Hi; rewrite Hl in Hi; exact Hi|].
        intros r [<-|Hin] Hlv; [congruence|apply Hc; assumption].
      * destruct (cell_roundtrip _ _ _ _ Hcell) as (_ & Hnz & Hpm & _). cbn [rval rty snd fst] in Hnz, Hpm.
        rewrite Hnz. cbn [andb]. change (marshal_into 8 (FPrim p) st0 ft fv) with (prim_marshal (ps_kind p) ft fv). rewrite Hpm.
        assert (Hl : live (d, ft, fv) = true) by (unfold live; fold id; cbn [rval snd]; rewrite Hnz; replace (0 <=? id) with true by lia; reflexivity).
        cbn [filter map] in Hnd. rewrite Hl in Hnd. cbn [map] in Hnd. apply NoDup_cons_iff in Hnd. destruct Hnd as (Hnotin & Hnd). fold id in Hnotin.
        set (m1 := with_present (if id =? 0 then with_mti m st else with_fields m (zupdate id st (m_fields m)))
                                (zadd id (m_present (if id =? 0 then with_mti m st else with_fields m (zupdate id st (m_fields m)))))).
        assert (Hst1 : has_states S m1).
        { intros i s Hs. destruct (Hst i s Hs) as (x & Hx). unfold m1. destruct (id =? 0) eqn:E0; cbn [with_present with_mti with_fields m_fields]; [exists x; exact Hx|].
          destruct (Z.eq_dec i id) as [->|Hne]; [exists st; apply zlookup_zupdate_same; exists x; exact Hx|exists x; rewrite zlookup_zupdate_other by lia; exact Hx]. }
        assert (Hg1 : forall i, get_state m1 i = if i =? id then Some st else get_state m i).
        { intros i. unfold get_state, m1. destruct (id =? 0) eqn:E0; cbn [with_present with_mti with_fields m_fields m_mti].
          - assert (id = 0) by lia. destruct (i =? 0) eqn:Ei; [replace (i =? id) with true by lia; reflexivity|replace (i =? id) with false by lia; reflexivity].
          - destruct (i =? 0) eqn:Ei; [replace (i =? id) with false by lia; reflexivity|].
            destruct (i =? id) eqn:Eid; [assert (i = id) by lia; subst i; apply zlookup_zupdate_same; unfold get_state in Hst0; rewrite E0 in Hst0; exists st0; exact Hst0|rewrite zlookup_zupdate_other by lia; reflexivity]. }
        assert (Hp1 : forall i, zmem i (m_present m1) = (i =? id) || zmem i (m_present m)).
        { intros i. unfold m1. cbn [with_present m_present]. rewrite zmem_zadd. destruct (id =? 0); reflexivity. }
        destruct (IH m1 Hrest Hst1 Hnd) as (m' & Hm & Hs' & Hp & Hu & Hc). exists m'. split; [exact Hm|]. split; [exact Hs'|].
        assert (Hnone : existsb (fun r => live r && (rid r =? id)) rest = false).
        { destruct (existsb (fun r => live r && (rid r =? id)) rest) eqn:Ex; [|reflexivity]. exfalso. apply Hnotin. apply existsb_exists in Ex. destruct Ex as (r & Hin & Hr).
          apply Bool.andb_true_iff in Hr. destruct Hr as (Hlr & Hidr). apply in_map_iff. exists r. split; [lia|]. apply filter_In. split; assumption. }
        split; [|split].
        -- intros i. rewrite Hp, Hp1. cbn [existsb]. rewrite Hl. cbn [andb]. fold id. rewrite (Z.eqb_sym id i). destruct (i =? id), (zmem i (m_present m)), (existsb _ rest); reflexivity.
        -- intros i Hi. cbn [existsb] in Hi. rewrite Hl in Hi. cbn [andb] in Hi. fold id in Hi. apply Bool.orb_false_iff in Hi. destruct Hi as (Hi1 & Hi2).
           rewrite (Hu i Hi2), Hg1. replace (i =? id) with false by lia. reflexivity.
        -- intros r [<-|Hin] Hlv.
           ++ exists p, st. split; [exact Hsp|]. split; [exact Hpm|]. fold id. rewrite (Hu id Hnone), Hg1, Z.eqb_refl. reflexivity.
           ++ apply Hc; assumption.
Qed.

Definition indexed (r : row) : bool := 0 <=? rid r.
Definition zero_row (r : row) : row := (fst r, g_zero (rty r)).
Definition expected (r : row) : gval := if live r then rval r else g_zero (rty r).

Lemma NoDup_map_filter {A B} (f : A -> B) (g : A -> bool) l : NoDup (map f l) -> NoDup (map f (filter g l)).
Proof.
  induction l as [|x r IH]; intros H; [constructor|]. cbn [map] in H. apply NoDup_cons_iff in H. destruct H as (Hx & Hr). cbn [filter].
  destruct (g x); [|apply IH; exact Hr]. cbn [map]. constructor; [|apply IH; exact Hr].
  intros Hin. apply Hx. apply in_map_iff in Hin. destruct Hin as (y & Hy & Hyi). apply filter_In in Hyi. apply in_map_iff. exists y. tauto.
Qed.

Lemma filter_live_indexed l : filter live (filter indexed l) = filter live l.
Proof.
  induction l as [|x r IH]; [reflexivity|]. cbn [filter]. destruct (indexed x) eqn:Ei; cbn [filter]; rewrite IH; [reflexivity|].
  unfold live, indexed in *. rewrite Ei. reflexivity.
Qed.

(* Unmarshal of the marshalled message into a zero struct *)
Lemma unmarshal_rows S m m' l : Forall (row_ok S) l ->
  NoDup (map rid (filter indexed l)) ->
  (forall r, In r l -> 0 <= rid r -> zmem (rid r) (m_present m) = false) ->
  (forall id, zmem id (m_present m') = zmem id (m_present m) || existsb (fun r => live r && (rid r =? id)) l) ->
  (forall r, In r l -> live r = true -> exists p st, get_spec S (rid r) = Some (FPrim p) /\ prim_marshal (ps_kind p) (rty r) (rval r) = Ok st /\ get_state m' (rid r) = Some st) ->
  has_states S m' ->
  forall l0, (forall r, In r l0 -> In r l) -> m_unmarshal_fields S m' (map zero_row l0) = Ok (map expected l0).
Proof.
  intros Hok Hnd Hfresh Hp Hc Hst'. induction l0 as [|r rest IH]; intros Hsub; [reflexivity|].
  cbn [map]. destruct r as ((d, ft), fv). unfold zero_row at 1. cbn [fst snd rty]. cbn [m_unmarshal_fields].
  rewrite (IH (fun r Hi => Hsub r (or_intror Hi))). cbn [obind].
  change (it_id (index_tag_of d)) with (rid (d, ft, fv)).
  assert (Hin : In (d, ft, fv) l) by (apply Hsub; left; reflexivity).
  rewrite Forall_forall in Hok. pose proof (Hok _ Hin) as Hrow. set (id := rid (d, ft, fv)) in *.
  destruct Hrow as [Hneg|(H0 & H1 & p & Hsp & Hcase)].
  - replace (id <? 0) with true by lia. cbn [obind]. unfold expected, live. fold id. replace (0 <=? id) with false by lia. reflexivity.
  - replace (id <? 0) with false by lia.
    assert (Hstate : exists st', get_state m' id = Some st').
    { unfold get_state, get_spec in *. fold id in Hsp. destruct (id =? 0); [eexists; reflexivity|]. apply (Hst' id _ Hsp). }
    destruct Hstate as (st' & Hst0).
    assert (Hsource : (if id =? 0 then Some (FPrim (ms_mti S), m_mti m')
                       else match zlookup id (ms_fields S), zlookup id (m_fields m') with Some s, Some st => Some (s, st) | _, _ => None end) = Some (FPrim p, st')).
    { unfold get_state, get_spec in *. fold id in Hsp. destruct (id =? 0); [congruence|]. rewrite Hsp, Hst0. reflexivity. }
    rewrite Hsource. destruct Hcase as [(Hz & Hk)|(st & Hcell)].
    + (* zero: the element is absent, the struct field stays *)
      assert (Hl : live (d, ft, fv) = false) by (unfold live; rewrite Hz; apply Bool.andb_false_r).
      assert (Habs : zmem id (m_present m') = false).
      { pose proof (Hfresh _ Hin H0) as Hf. fold id in Hf. rewrite Hp, Hf. cbn [orb]. destruct (existsb (fun r => live r && (rid r =? id)) l) eqn:Ex; [|reflexivity]. exfalso.
        apply existsb_exists in Ex. destruct Ex as (r & Hr & Hlr). apply Bool.andb_true_iff in Hlr. destruct Hlr as (Hlv & Hidr).
        (* two indexed rows with the same id *)
        assert (r = (d, ft, fv)); [|subst r; congruence].
        assert (Hi1 : In r (filter indexed l)) by (apply filter_In; split; [exact Hr|unfold indexed; lia]).
        assert (Hi2 : In (d, ft, fv) (filter indexed l)) by (apply filter_In; split; [exact Hin|unfold indexed; fold id; lia]).
        clear - Hnd Hi1 Hi2 Hidr. assert (Hid : rid r = rid (d, ft, fv)) by (fold id; lia). clear Hidr. revert Hnd Hi1 Hi2 Hid. generalize (filter indexed l). intros L.
        induction L as [|x L' IHL]; intros Hnd Hi1 Hi2 Hid; [destruct Hi1|]. cbn [map] in Hnd. apply NoDup_cons_iff in Hnd. destruct Hnd as (Hx & Hnd').
        destruct Hi1 as [->|Hi1], Hi2 as [E2|Hi2].
        - exact E2.
        - exfalso. apply Hx. rewrite Hid. apply in_map. exact Hi2.
        - exfalso. apply Hx. subst x. rewrite <- Hid. apply in_map. exact Hi1.
        - apply IHL; assumption. }
      rewrite Habs. cbn [obind]. unfold expected. rewrite Hl. reflexivity.
    + destruct (cell_roundtrip _ _ _ _ Hcell) as (_ & Hnz & Hpm & Hun). cbn [rval rty snd fst] in Hnz, Hpm, Hun.
      assert (Hl : live (d, ft, fv) = true) by (unfold live; fold id; cbn [rval snd]; rewrite Hnz; replace (0 <=? id) with true by lia; reflexivity).
      destruct (Hc _ Hin Hl) as (p' & st2 & Hsp' & Hpm' & Hst2). fold id in Hsp', Hst2. cbn [rty rval fst snd] in Hpm'.
      assert (p' = p) by (unfold get_spec in *; fold id in Hsp; congruence). subst p'. assert (st2 = st) by congruence. subst st2. assert (st' = st) by congruence. subst st'.
      assert (Hpres : zmem id (m_present m') = true).
      { rewrite Hp. apply Bool.orb_true_iff. right. apply existsb_exists. exists (d, ft, fv). split; [exact Hin|]. rewrite Hl. fold id. lia. }
      rewrite Hpres. change (unmarshal_from 8 (FPrim p) st ft (g_zero ft)) with (prim_unmarshal st ft (g_zero ft)). rewrite Hun. cbn [obind].
      unfold expected. rewrite Hl. reflexivity.
Qed.

Lemma zip_zero fields : forall vals, length vals = length fields ->
  zip_decls fields (map (fun df => g_zero (snd df)) fields) = map zero_row (zip_decls fields vals).
Proof.
  induction fields as [|(d, t) fr IH]; intros [|v vr] Hl; try discriminate; [reflexivity|]. cbn [map zip_decls snd]. rewrite (IH vr) by (cbn in Hl; lia). reflexivity.
Qed.

(* Marshal then Unmarshal into a zero value of the same struct type: every non-zero indexed field comes back unchanged,
   every other field stays zero *)
Theorem struct_roundtrip S m fields vals : length vals = length fields ->
  let l := zip_decls fields vals in
  Forall (row_ok S) l -> has_states S m -> NoDup (map rid (filter indexed l)) ->
  (forall r, In r l -> 0 <= rid r -> zmem (rid r) (m_present m) = false) ->
  exists m', m_marshal S m (TPtr (TStruct fields)) (VPtr (Some (VStruct vals))) = (m', Ok tt) /\
    m_unmarshal S m' (TPtr (TStruct fields)) (VPtr (Some (VStruct (map (fun df => g_zero (snd df)) fields)))) = Ok (VPtr (Some (VStruct (map expected l)))).
Proof.
  intros Hlen l Hok Hst Hnd Hfresh.
  assert (Hnd2 : NoDup (map rid (filter live l))) by (rewrite <- filter_live_indexed; apply NoDup_map_filter; exact Hnd).
  destruct (marshal_rows S l m Hok Hst Hnd2) as (m' & Hm & Hs' & Hp & _ & Hc). exists m'. cbn [m_marshal m_unmarshal]. split; [exact Hm|].
  rewrite (zip_zero fields vals Hlen). fold l.
  rewrite (unmarshal_rows S m m' l Hok Hnd Hfresh Hp Hc Hs' l (fun r H => H)). reflexivity.
Qed.

(* ---------------- via Pack and Unpack into another message ---------------- *)
(* Unmarshal reads only the populated set and the states of the populated elements *)
Lemma unmarshal_congr S ma mb : forall (l : list row),
  (forall r, In r l -> rid r <> 1) ->
  (forall r, In r l -> 0 <= rid r -> zmem (rid r) (m_present mb) = zmem (rid r) (m_present ma)) ->
  (forall r, In r l -> 0 <= rid r -> zmem (rid r) (m_present ma) = true -> get_state mb (rid r) = get_state ma (rid r)) ->
  m_unmarshal_fields S mb l = m_unmarshal_fields S ma l.
Proof.
  induction l as [|r rest IH]; intros H1 Hp Hs; [reflexivity|]. destruct r as ((d, ft), fv). cbn [m_unmarshal_fields].
  rewrite (IH (fun r Hi => H1 r (or_intror Hi)) (fun r Hi => Hp r (or_intror Hi)) (fun r Hi => Hs r (or_intror Hi))).
  change (it_id (index_tag_of d)) with (rid (d, ft, fv)).
  pose proof (H1 _ (or_introl eq_refl)) as Hne1. pose proof (Hp _ (or_introl eq_refl)) as Hpr. pose proof (Hs _ (or_introl eq_refl)) as Hsr.
  set (id := rid (d, ft, fv)) in *. destruct (id <? 0) eqn:E0; [reflexivity|]. specialize (Hpr ltac:(lia)). specialize (Hsr ltac:(lia)).
  replace (id =? 1) with false by lia. cbn [andb]. unfold get_state in *.
  destruct (id =? 0) eqn:Ez.
  - rewrite Hpr. destruct (zmem id (m_present ma)) eqn:Em; [|reflexivity]. specialize (Hsr eq_refl). inversion Hsr as [Hm]. rewrite Hm. reflexivity.
  - destruct (zlookup id (ms_fields S)) as [s|]; [|reflexivity]. rewrite Hpr.
    destruct (zmem id (m_present ma)) eqn:Em.
    + specialize (Hsr eq_refl). rewrite Hsr. reflexivity.
    + destruct (zlookup id (m_fields ma)), (zlookup id (m_fields mb)); reflexivity.
Qed.

(* Marshal, Pack, Unpack into another message object, Unmarshal: the same struct *)
Theorem struct_wire_roundtrip S m fields vals : length vals = length fields ->
  let l := zip_decls fields vals in
  Forall (row_ok S) l -> has_states S m -> NoDup (map rid (filter indexed l)) ->
  (forall r, In r l -> 0 <= rid r -> zmem (rid r) (m_present m) = false) ->
  msg_coherent S ->
  exists m', m_marshal S m (TPtr (TStruct fields)) (VPtr (Some (VStruct vals))) = (m', Ok tt) /\
    forall mp b, msg_in_dom S m' -> m_pack S m' = (mp, Ok b) -> forall m0 rest, msg_shaped S m0 ->
      exists m2, m_unpack S m0 (b ++ rest) = (m2, UOk (zlen b)) /\
        m_unmarshal S m2 (TPtr (TStruct fields)) (VPtr (Some (VStruct (map (fun df => g_zero (snd df)) fields)))) = Ok (VPtr (Some (VStruct (map expected l)))).
Proof.
  intros Hlen l Hok Hst Hnd Hfresh Hcoh.
  destruct (struct_roundtrip S m fields vals Hlen Hok Hst Hnd Hfresh) as (m' & Hm & Hun). exists m'. split; [exact Hm|].
  intros mp b Hdom Hp m0 rest Hsh. destruct (message_roundtrip S m' mp b Hcoh Hdom Hp m0 rest Hsh) as (m2 & Hu & Hmti & _ & Hpres & _ & Hfl).
  exists m2. split; [exact Hu|]. cbn [m_unmarshal] in *. rewrite (zip_zero fields vals Hlen) in *. fold l in Hun |- *.
  pose proof (m_pack_pure S m') as Hpure. rewrite Hp in Hpure. cbn [fst] in Hpure. cbv zeta in Hpure. destruct Hpure as (Pm & Pf & Pp).
  rewrite <- Hun. f_equal.
  rewrite (unmarshal_congr S m' m2 (map zero_row l)); [reflexivity| | |].
  - intros r Hr. apply in_map_iff in Hr. destruct Hr as (r0 & <- & Hr0). rewrite Forall_forall in Hok. destruct (Hok r0 Hr0) as [Hneg|(_ & H1 & _)]; unfold rid, zero_row in *; cbn [fst] in *; lia.
  - intros r Hr H0. assert (rid r <> 1).
    { apply in_map_iff in Hr. destruct Hr as (r0 & <- & Hr0). rewrite Forall_forall in Hok. destruct (Hok r0 Hr0) as [Hneg|(_ & H1 & _)]; unfold rid, zero_row in *; cbn [fst] in *; lia. }
    rewrite Hpres by assumption. apply Pp. assumption.
  - intros r Hr H0 Hm'. apply in_map_iff in Hr. destruct Hr as (r0 & <- & Hr0). rewrite Forall_forall in Hok.
    assert (Hid : rid (zero_row r0) = rid r0) by reflexivity. rewrite Hid in *.
    destruct (Hok r0 Hr0) as [Hneg|(_ & H1 & p & Hsp & _)]; [lia|]. unfold get_state, get_spec in *.
    destruct (rid r0 =? 0) eqn:Ez; [rewrite Hmti, Pm; reflexivity|].
    assert (Hmp : zmem (rid r0) (m_present mp) = true) by (rewrite Pp by exact H1; exact Hm').
    destruct (Hfl (rid r0) ltac:(lia) Hmp) as (s & x & y & Hs & Hx & Hy & Heq & _). rewrite Hsp in Hs. inversion Hs; subst s. cbn [equiv] in Heq. subst y.
    rewrite Hy, <- Pf. symmetry. exact Hx.
Qed.

(* ---------------- keepzero ---------------- *)
(* the zero value of every documented Go type marshals *)
Lemma zero_marshals k t : documented k t = true -> exists st, prim_marshal k t (g_zero t) = Ok st.
Proof.
  destruct k; destruct t as [| | | |t'|k'|fs]; try discriminate; try (destruct t' as [| | | |t2|k2|fs2]; try discriminate); try (destruct k'; try discriminate);
    intros _; eexists; reflexivity.
Qed.

(* a struct field tagged keepzero is written whatever its value: the element becomes populated with what Marshal makes
   of the value (for a zero value: the zero state above) *)
Theorem marshal_keepzero_written S m d ft fv rest p st0 st :
  it_keepzero (index_tag_of d) = true -> 2 <= it_id (index_tag_of d) ->
  zlookup (it_id (index_tag_of d)) (ms_fields S) = Some (FPrim p) -> zlookup (it_id (index_tag_of d)) (m_fields m) = Some st0 ->
  prim_marshal (ps_kind p) ft fv = Ok st ->
  m_marshal_fields S m ((d, ft, fv) :: rest) =
  m_marshal_fields S (with_present (with_fields m (zupdate (it_id (index_tag_of d)) st (m_fields m))) (zadd (it_id (index_tag_of d)) (m_present m))) rest.
Proof.
  intros Hk Hid Hs Hst Hm. cbn [m_marshal_fields]. replace (it_id (index_tag_of d) <? 0) with false by lia.
  replace (it_id (index_tag_of d) =? 0) with false by lia. rewrite Hs, Hst, Hk. cbn [negb]. rewrite Bool.andb_false_r.
  change (marshal_into 8 (FPrim p) st0 ft fv) with (prim_marshal (ps_kind p) ft fv). rewrite Hm. reflexivity.
Qed.

(* what a keepzero zero field reads back as: for every documented cell the zero value of the Go type, written because of
   keepzero, comes back as zero_back k t - the zero value itself for plain targets (a Numeric field renders its 0, so a
   string target reads "0"), a pointer to it for pointer targets (Unmarshal allocates), the field object with its zero
   state for library targets - and that value marshals to the very state the zero value marshalled to (on the wire the
   two are the same message) *)
Definition zero_state (k : fkind) : fstate :=
  match k with KString => SString [] | KNumeric => SNumeric 0 | KBinary => SBinary [] | KHex => SHex [] end.

Definition zero_back (k : fkind) (t : gty) : gval :=
  match k, t with
  | KNumeric, TStr => VStr (itoa 0)
  | KNumeric, TPtr TStr => VPtr (Some (VStr (itoa 0)))
  | _, TPtr TBytes => VPtr (Some (VBytes (Some [])))
  | _, TPtr t' => VPtr (Some (g_zero t'))
  | _, TLib k' => VLib (Some (zero_state k'))
  | _, _ => g_zero t
  end.

Lemma keepzero_readback k t : documented k t = true ->
  exists st, prim_marshal k t (g_zero t) = Ok st /\ (forall cur, prim_unmarshal st t cur = Ok (zero_back k t)) /\
             prim_marshal k t (zero_back k t) = Ok st.
Proof.
  destruct k; destruct t as [| | | |t'|k'|fs]; try discriminate; try (destruct t' as [| | | |t2|k2|fs2]; try discriminate); try (destruct k'; try discriminate);
    intros _; eexists; (split; [reflexivity|split; [intros cur; reflexivity|reflexivity]]).
Qed.

(* the only cells where the value read back differs from the zero value by more than a pointer allocation *)
Fixpoint g_deref (v : gval) : gval :=
  match v with
  | VPtr (Some v') => g_deref v'
  | VBytes (Some []) => VBytes None
  | _ => v
  end.
Lemma zero_back_is_zero k t : documented k t = true -> k <> KNumeric \/ (t <> TStr /\ t <> TPtr TStr) ->
  match t with TLib k' => zero_back k t = VLib (Some (zero_state k')) | TPtr t' => g_deref (zero_back k t) = g_zero t' | _ => zero_back k t = g_zero t end.
Proof.
  destruct k; destruct t as [| | | |t'|k'|fs]; try discriminate; try (destruct t' as [| | | |t2|k2|fs2]; try discriminate); try (destruct k'; try discriminate);
    intros _ [H|[H1 H2]]; try reflexivity; try congruence.
Qed.
