(* Extraction of the case interpreter. ExtrOcamlBasic only: bool, option, unit, list, prod, sumbool,
   sumor, comparison map to OCaml's; nat, N, Z, positive, byte, string/ascii stay extracted inductives. *)
From Coq Require Import extraction.Extraction extraction.ExtrOcamlBasic.
From Iso Require Import Model.Base Model.Run.
Extraction Language OCaml.
Extraction "model.ml" run_case all_bytes.
