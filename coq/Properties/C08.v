(* C08 Declared field lengths are enforced on both pack and unpack. Proofs in Proofs/FieldProofs.v; the statement for
   whole specification trees (every node that contributed bytes, at every depth) is C08_pack_tree, Proofs/LengthTree.v, and on the Unpack side C08_unpack_tree, Proofs/AcceptedTree.v. *)
From Iso Require Import Model.Base Model.Padding Model.Encoding Model.Prefix Model.Bitmap Model.Spec Model.Field
     Proofs.BaseLemmas Proofs.EncodingProofs Proofs.PrefixProofs Proofs.FieldProofs Proofs.CompositeProofs Proofs.LengthTree Proofs.AcceptedTree Properties.C01.

(* Pack returns bytes only if the (padded) value is within the declared maximum, equal to the declared
   length of a fixed field, and expressible in the prefix's digits *)
Theorem C08_prim_pack : forall p st b, wf_pref (ps_pref p) -> ps_packer p = PkDefault -> prim_pack p st = Ok b ->
  exists raw, prim_raw st = Ok raw /\
    let n := zlen (pad (ps_pad p) raw (ps_len p)) in
    (n <= max_int -> enc_must_fail (ps_pref p) (ps_len p) n = false).
Proof. exact prim_pack_enforces. Qed.
Print Assumptions C08_prim_pack.

Theorem C08_must_fail_meaning : forall p max n, enc_must_fail p max n = false ->
  match p with
  | PFixed _ => n = max
  | PVar _ _ => n <= max /\ pref_fits p n = true
  | PBerTLV => max = 0 \/ n <= max
  | PNone => True
  end.
Proof. exact enc_must_fail_false. Qed.
Print Assumptions C08_must_fail_meaning.

(* ... and likewise for the total encoded length of a composite, at every nesting level (pack_f is the
   recursive packer: the statement holds for the composite at the root of any spec tree) *)
Theorem C08_comp_pack : forall pref len mode subs st b, wf_pref pref -> pack_f (FComp pref len mode subs) st = Ok b ->
  exists body, (zlen body <= max_int -> enc_must_fail pref len (zlen body) = false) /\
               exists pre, b = pre ++ body /\ enc_len pref len (zlen body) = Ok pre.
Proof. exact comp_pack_enforces. Qed.
Print Assumptions C08_comp_pack.

(* Unpack rejects any field whose announced length exceeds the declared maximum or the bytes available *)
Theorem C08_prim_unpack : forall p data raw n, 0 <= ps_len p -> ps_enc p <> EncBerTag -> prim_unpack_raw p data = Ok (raw, n) ->
  exists m pb, dec_len (ps_pref p) (ps_len p) data = Ok (m, pb) /\ 0 <= m /\
    (pref_bounded (ps_pref p) (ps_len p) = true -> m <= ps_len p) /\
    0 <= pb <= n /\ n <= zlen data /\
    (ps_packer p = PkDefault -> enc_min_bytes (ps_enc p) m <= zlen data - pb).
Proof. exact prim_unpack_enforces. Qed.
Print Assumptions C08_prim_unpack.

Theorem C08_comp_unpack : forall pref len mode subs st data st' n, 0 <= len ->
  unpack_f (FComp pref len mode subs) st data = (st', UOk n) ->
  exists dlen offset, dec_len pref len data = Ok (dlen, offset) /\ 0 <= dlen /\
    (pref_bounded pref len = true -> dlen <= len) /\ dlen <= zlen data - offset /\ n = offset + dlen.
Proof. exact comp_unpack_enforces. Qed.
Print Assumptions C08_comp_unpack.

Definition p8 : pspec := {| ps_kind := KString; ps_enc := EncASCII; ps_pref := PVar PfASCII 2; ps_len := 3; ps_pad := PadNone; ps_packer := PkDefault |}.
Example C08_ex1 : is_err (prim_pack p8 (SString [x61; x62; x63; x64])) = true /\ is_ok (prim_pack p8 (SString [x61; x62; x63])) = true.
Proof. split; vm_compute; reflexivity. Qed.
Example C08_ex2 : is_err (prim_unpack_raw p8 [x30; x34; x61; x62; x63; x64]) = true /\ is_err (prim_unpack_raw p8 [x30; x33; x61; x62]) = true.
Proof. split; vm_compute; reflexivity. Qed.

(* the whole tree: when Pack of a field of any coherent specification succeeds, the declared length was enforced at every
   node that contributed bytes - the field itself and, recursively, every set subfield at every depth (pack_enforced:
   a primitive's padded value, a composite's concatenated body, each with a length its prefixer need not refuse) *)
Theorem C08_pack_tree : forall s, coherent s -> forall st b, pack_f s st = Ok b -> pack_enforced s st.
Proof. exact pack_enforces_tree. Qed.
Print Assumptions C08_pack_tree.

(* the Unpack side for whole trees: everything a successful Unpack of a coherent specification leaves populated - the field
   itself and, recursively, every set subfield at every depth - was itself produced by a successful Unpack of its own
   specification (accepted_tree), so C08_prim_unpack / C08_comp_unpack (announced length within the declared maximum and
   within the bytes available) hold at every node of the tree *)
Theorem C08_unpack_tree : forall s, coherent s -> forall st0 d st n, shaped s st0 -> unpack_f s st0 d = (st, UOk n) ->
  shaped s st /\ accepted_tree s st.
Proof. exact spec_acc_tree. Qed.
Print Assumptions C08_unpack_tree.

(* whole messages: when Pack of a message succeeds the declared lengths were enforced in every populated data element at
   every depth, and after a successful Unpack every populated data element, at every depth, was produced by a successful
   Unpack of its own specification *)
From Iso Require Import Model.Message Proofs.MessageRoundtrip.
Theorem C08_message_pack_tree : forall S m m' b, (forall id s, zlookup id (ms_fields S) = Some s -> coherent s) ->
  m_pack S m = (m', Ok b) ->
  forall id, 2 <= id -> zmem id (m_present m) = true -> bm_is_presence_bit (ms_bm S) id = false ->
    exists s st, zlookup id (ms_fields S) = Some s /\ zlookup id (m_fields m) = Some st /\ pack_enforced s st.
Proof. exact message_pack_tree. Qed.
Print Assumptions C08_message_pack_tree.
Theorem C08_message_unpack_tree : forall S m0 d m n, msg_coherent S -> msg_shaped S m0 -> m_unpack S m0 d = (m, UOk n) ->
  forall id, 2 <= id -> zmem id (m_present m) = true ->
    exists s st, zlookup id (ms_fields S) = Some s /\ zlookup id (m_fields m) = Some st /\ accepted_tree s st.
Proof. exact message_unpack_tree. Qed.
Print Assumptions C08_message_unpack_tree.

(* a nested specification: the inner Numeric element (maximum 6) given 7 digits makes the Pack of the outer composite fail,
   with 6 digits it packs; the specification is coherent (C01_ex_coherent) *)
Example C08_ex_tree : coherent c_ex /\
  is_err (pack_f c_ex (SComp [[x31]] [([x31], SNumeric 1234567); ([x32], SBinary [])])) = true /\
  is_ok (pack_f c_ex (SComp [[x31]] [([x31], SNumeric 123456); ([x32], SBinary [])])) = true.
Proof. split; [exact C01_ex_coherent|split; vm_compute; reflexivity]. Qed.
