(* C02 Every accepted byte string re-packs; re-encoding is a fixed point.
   Proved: (1) a primitive field that accepts bytes ends in a state of the round trip's domain, which packs
   (C02_prim_accept), so the re-packed bytes are accepted again, decode to the same value and re-pack to themselves
   (C02_prim_canonical) - for every coherent primitive specification satisfying accept_ok: an encoder whose decoded
   text is what it encodes (EBCDIC1047 is known finding F26, refuted below with a witness), a pad character the
   encoder accepts, a maximum the prefix digits can express, and for Numeric fields a way to restore the declared
   width (no fixed length without padding: that was defect F21 of the shipped specs) with a pad character that is not
   a significant digit. (2) A message that Unpack accepts lies in the domain of the message round trip and re-packs;
   the re-packed bytes are accepted again - whatever follows them, whatever object they are unpacked into - decode to
   the same MTI, bitmap, set of elements and element contents, and re-pack to exactly themselves
   (C02_message_canonical), for every coherent message specification whose field specifications are accepting
   (C02_prim_accepting: all primitive fields are). (3) Every nested specification: whatever a field (composites of all
   three modes, any depth) or a message accepts, IF it packs, lies in the domain of the round trip, so the re-packed
   bytes are accepted again, decode to equivalent content and re-pack to themselves (C02_field_canonical_if_packs,
   C02_message_canonical_if_packs), for coherent specifications whose primitive leaves are accept_ok (accept_spec); the
   five shipped specifications satisfy it completely (C02_shipped_specs_nested). That Pack of an accepted composite
   succeeds is the one clause without a theorem: a re-packed subfield (padded to its full width, an empty numeral
   rendered as 0) can outgrow a tight composite maximum; it is checked by the oracle on mutated encodings.
   C02_prim_fixed_point is the round trip on the domain itself. *)
From Iso Require Import Model.Base Model.Padding Model.Encoding Model.Prefix Model.Bitmap Model.Spec Model.Field Model.Message
     Proofs.BaseLemmas Proofs.PrefixProofs Proofs.FieldProofs Proofs.CompositeProofs Proofs.MessageRoundtrip Proofs.AcceptProofs Proofs.MessageAccept Proofs.CompositeAccept Proofs.MessageAccept2 Proofs.CoherenceCheck Gen.ShippedSpecs.
From Coq Require Import Lia.

Theorem C02_prim_fixed_point : forall p st b, coherent_pspec p -> prim_in_domain p st -> prim_pack p st = Ok b ->
  forall st0, prim_unpack p st0 b = (st, UOk (zlen b)) /\
              prim_pack p (fst (prim_unpack p st0 b)) = Ok b.
Proof.
  intros p st b Hc Hd Hp st0. pose proof (prim_roundtrip p st b Hc Hd Hp st0 []) as H. rewrite app_nil_r in H.
  split; [exact H|]. rewrite H. exact Hp.
Qed.
Print Assumptions C02_prim_fixed_point.

(* what a primitive field accepts lies in the domain of the round trip, and packs *)
Theorem C02_prim_accept : forall p st0 d st n, coherent_pspec p -> accept_ok p -> prim_unpack p st0 d = (st, UOk n) ->
  prim_in_domain p st /\ exists b, prim_pack p st = Ok b.
Proof. exact prim_accept. Qed.
Print Assumptions C02_prim_accept.

(* unpack-then-pack is a canonicalisation: its result is accepted again (with anything after it, into any object),
   gives the same value, and is its own re-encoding *)
Theorem C02_prim_canonical : forall p st0 d st n, coherent_pspec p -> accept_ok p -> prim_unpack p st0 d = (st, UOk n) ->
  exists b, prim_pack p st = Ok b /\
    forall st1 rest, prim_unpack p st1 (b ++ rest) = (st, UOk (zlen b)) /\ prim_pack p (fst (prim_unpack p st1 (b ++ rest))) = Ok b.
Proof.
  intros p st0 d st n Hc Ha Hu. destruct (prim_accept p st0 d st n Hc Ha Hu) as (Hd & b & Hp). exists b. split; [exact Hp|].
  intros st1 rest. pose proof (prim_roundtrip p st b Hc Hd Hp st1 rest) as H. split; [exact H|]. rewrite H. exact Hp.
Qed.
Print Assumptions C02_prim_canonical.

Theorem C02_prim_accepting : forall p, coherent_pspec p -> accept_ok p -> accepting (FPrim p).
Proof. exact prim_accepting. Qed.
Print Assumptions C02_prim_accepting.

Theorem C02_message_accept : forall S m0 d m n, msg_coherent S -> accept_ok (ms_mti S) ->
  (forall id s, zlookup id (ms_fields S) = Some s -> accepting s) ->
  m_unpack S m0 d = (m, UOk n) -> msg_in_dom S m /\ exists m' b, m_pack S m = (m', Ok b).
Proof. exact message_accept. Qed.
Print Assumptions C02_message_accept.

Theorem C02_message_canonical : forall S m0 d m n, msg_coherent S -> accept_ok (ms_mti S) ->
  (forall id s, zlookup id (ms_fields S) = Some s -> accepting s) ->
  m_unpack S m0 d = (m, UOk n) ->
  exists m' b, m_pack S m = (m', Ok b) /\
    forall m1 rest, msg_shaped S m1 ->
      exists m2, m_unpack S m1 (b ++ rest) = (m2, UOk (zlen b)) /\ msg_equiv S m' m2 /\ snd (m_pack S m2) = Ok b.
Proof. exact message_canonical. Qed.
Print Assumptions C02_message_canonical.

(* the shipped specifications (regenerated from the library's spec objects on every run): each is coherent, its MTI
   is accept_ok, and every primitive data element is accepting - so C02_message_canonical applies to every message
   made of primitive data elements of each of them. accept_okb is a decision procedure proved sound. *)
Theorem C02_shipped_specs : forall name t, In (name, t) shipped_specs ->
  exists MS, spec_of_string t = Some MS /\ msg_coherent MS /\ accept_ok (ms_mti MS) /\
             forall id p, zlookup id (ms_fields MS) = Some (FPrim p) -> accepting (FPrim p).
Proof.
  assert (H : forallb (fun nt : String.string * String.string => match spec_of_string (snd nt) with Some MS => msg_coherentb MS && prims_acceptb MS | None => false end) shipped_specs = true)
    by (vm_compute; reflexivity).
  intros name t Hi. rewrite forallb_forall in H. specialize (H (name, t) Hi). cbn [snd] in H.
  destruct (spec_of_string t) as [MS|]; [|discriminate]. apply Bool.andb_true_iff in H. destruct H as (H1 & H2).
  pose proof (msg_coherentb_sound MS H1) as Hc. destruct (prims_acceptb_sound MS H2) as (Hm & Hp).
  exists MS. split; [reflexivity|]. split; [exact Hc|]. split; [exact Hm|].
  intros id p Hl. apply prim_accepting; [|apply (Hp id p Hl)]. destruct Hc as (_ & _ & _ & _ & Hf). apply (Hf id (FPrim p) Hl).
Qed.
Print Assumptions C02_shipped_specs.

(* ---- every nested specification, given that the accepted value packs ---- *)
Theorem C02_field_canonical_if_packs : forall s st0 d st n b, coherent s -> accept_spec s -> shaped s st0 ->
  unpack_f s st0 d = (st, UOk n) -> pack_f s st = Ok b -> zlen b <= max_int ->
  forall st1 rest, shaped s st1 -> exists st', unpack_f s st1 (b ++ rest) = (st', UOk (zlen b)) /\ equiv s st st' /\ pack_f s st' = Ok b.
Proof. exact field_canonical_if_packs. Qed.
Print Assumptions C02_field_canonical_if_packs.

Theorem C02_message_canonical_if_packs : forall S m0 d m n m' b, msg_coherent S -> accept_ok (ms_mti S) ->
  (forall id s, zlookup id (ms_fields S) = Some s -> accept_spec s) -> msg_shaped S m0 ->
  m_unpack S m0 d = (m, UOk n) -> m_pack S m = (m', Ok b) -> zlen b <= max_int ->
  forall m1 rest, msg_shaped S m1 ->
    exists m2, m_unpack S m1 (b ++ rest) = (m2, UOk (zlen b)) /\ msg_equiv S m' m2 /\ snd (m_pack S m2) = Ok b.
Proof. exact message_canonical_if_packs. Qed.
Print Assumptions C02_message_canonical_if_packs.

(* every data element of every shipped specification - composites included - satisfies accept_spec *)
Theorem C02_shipped_specs_nested : forall name t, In (name, t) shipped_specs ->
  exists MS, spec_of_string t = Some MS /\ msg_coherent MS /\ accept_ok (ms_mti MS) /\
             forall id s, zlookup id (ms_fields MS) = Some s -> accept_spec s.
Proof.
  assert (H : forallb (fun nt : String.string * String.string => match spec_of_string (snd nt) with
                 | Some MS => msg_coherentb MS && accept_okb (ms_mti MS) && forallb (fun ids => accept_specb (snd ids)) (ms_fields MS) | None => false end) shipped_specs = true)
    by (vm_compute; reflexivity).
  intros name t Hi. rewrite forallb_forall in H. specialize (H (name, t) Hi). cbn [snd] in H.
  destruct (spec_of_string t) as [MS|]; [|discriminate]. apply Bool.andb_true_iff in H. destruct H as (H12 & H3). apply Bool.andb_true_iff in H12. destruct H12 as (H1 & H2).
  exists MS. split; [reflexivity|]. split; [apply msg_coherentb_sound; exact H1|]. split; [apply accept_okb_sound; exact H2|].
  intros id s Hl. apply accept_specb_sound. rewrite forallb_forall in H3. apply (H3 (id, s)).
  clear - Hl. induction (ms_fields MS) as [|(k, v) r IH]; [discriminate|]. cbn [zlookup] in Hl. destruct (id =? k) eqn:E; [left; f_equal; [lia|congruence]|right; apply IH; exact Hl].
Qed.
Print Assumptions C02_shipped_specs_nested.

(* the hypotheses are satisfiable: a zero-padded fixed Numeric field and a variable String field are accept_ok *)
Definition p_num : pspec := {| ps_kind := KNumeric; ps_enc := EncASCII; ps_pref := PFixed PfASCII; ps_len := 6; ps_pad := PadLeft x30; ps_packer := PkDefault |}.
Definition p_str : pspec := {| ps_kind := KString; ps_enc := EncASCII; ps_pref := PVar PfASCII 2; ps_len := 19; ps_pad := PadNone; ps_packer := PkDefault |}.
Example C02_ex_accept_ok : accept_ok p_num /\ accept_ok p_str /\ coherent_pspec p_num /\ coherent_pspec p_str /\
  prim_unpack p_num (SNumeric 0) [x30; x30; x30; x30; x31; x32] = (SNumeric 12, UOk 6) /\
  prim_unpack p_num (SNumeric 5) [x30; x30; x30; x30; x30; x30] = (SNumeric 0, UOk 6).
Proof.
  unfold accept_ok, coherent_pspec, plain_enc, pref_plain, pad_char_ok. cbn [p_num p_str ps_enc ps_pref ps_len ps_pad ps_kind ps_packer wf_pref value_enc].
  repeat split; try reflexivity; try (unfold max_int; lia); try tauto; try discriminate; try (intros; discriminate); try (vm_compute; intros [? ?]; discriminate); try lia.
  change (bz x30) with 48. lia.
Qed.

(* F26: an EBCDIC1047 text field accepts a byte that decodes to a non-ASCII character; the value is then two UTF-8
   bytes long and cannot be re-packed under the same length *)
Definition p1047 : pspec := {| ps_kind := KString; ps_enc := EncEBCDIC1047; ps_pref := PFixed PfASCII; ps_len := 1; ps_pad := PadNone; ps_packer := PkDefault |}.
Theorem C02_accept_refuted : exists p d st n, coherent_pspec p /\ prim_unpack p (SString []) d = (st, UOk n) /\ is_ok (prim_pack p st) = false.
Proof. exists p1047, [x46], (SString [xc3; xa3]), 1. split; [repeat split; cbn; try lia; reflexivity|]. split; vm_compute; reflexivity. Qed.
Print Assumptions C02_accept_refuted.
