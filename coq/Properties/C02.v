(* C02 Every accepted byte string re-packs; re-encoding is a fixed point.
   Proved: on the canonical states (what Unpack itself produces inside the domain) re-encoding is a fixed point for
   every primitive field: unpack(pack st) = st and pack of that is the same bytes, so canon (canon d) = canon d for
   every d = pack st. The step "whatever Unpack accepts lies in the domain" (C02_accept_statement) is checked by
   the oracle on mutated encodings and not yet proved; it is false for EBCDIC1047 text fields (known finding F26,
   refuted below with a witness). *)
From Iso Require Import Model.Base Model.Padding Model.Encoding Model.Prefix Model.Bitmap Model.Spec Model.Field
     Proofs.BaseLemmas Proofs.PrefixProofs Proofs.FieldProofs.

Theorem C02_prim_fixed_point : forall p st b, coherent_pspec p -> prim_in_domain p st -> prim_pack p st = Ok b ->
  forall st0, prim_unpack p st0 b = (st, UOk (zlen b)) /\
              prim_pack p (fst (prim_unpack p st0 b)) = Ok b.
Proof.
  intros p st b Hc Hd Hp st0. pose proof (prim_roundtrip p st b Hc Hd Hp st0 []) as H. rewrite app_nil_r in H.
  split; [exact H|]. rewrite H. exact Hp.
Qed.
Print Assumptions C02_prim_fixed_point.

Definition C02_accept_statement : Prop :=
  forall p st0 d st n, coherent_pspec p -> prim_unpack p st0 d = (st, UOk n) -> is_ok (prim_pack p st) = true.

(* F26: an EBCDIC1047 text field accepts a byte that decodes to a non-ASCII character; the value is then two UTF-8
   bytes long and cannot be re-packed under the same length *)
Definition p1047 : pspec := {| ps_kind := KString; ps_enc := EncEBCDIC1047; ps_pref := PFixed PfASCII; ps_len := 1; ps_pad := PadNone; ps_packer := PkDefault |}.
Theorem C02_accept_refuted : exists p d st n, coherent_pspec p /\ prim_unpack p (SString []) d = (st, UOk n) /\ is_ok (prim_pack p st) = false.
Proof. exists p1047, [x46], (SString [xc3; xa3]), 1. split; [repeat split; cbn; try lia; reflexivity|]. split; vm_compute; reflexivity. Qed.
Print Assumptions C02_accept_refuted.
