(* C04 Decoding untrusted bytes never panics, hangs or over-allocates.
   Proved: the leaf decoders (all encoders, all prefixers) and every primitive field Unpack return Ok or Err for
   every byte string - the model's Panic primitives (slice bounds, index, make) are unreachable there; the bitmap
   unpack loop terminates within fuel S(length input) because each iteration consumes at least one byte; network
   header reads are covered by C16_read_safe. Composite and message level: for every specification in wfs / wfm
   (non-negative lengths, distinct tags, tags of positive width or BER, fixed-prefix Binary/Hex bitmaps) and every
   object of the right shape (new objects are), Unpack of a field (any nesting, all three composite modes) or of a
   message returns a non-negative count or an error for EVERY byte string: the model's Panic outcomes (slice bounds,
   index, state mismatch) and its fuel exhaustion (the TLV loop consumes at least one byte per iteration) are
   unreachable (C04_field_no_panic, C04_message_no_panic). The size of what the decoders and
   primitive fields produce is bounded by the bytes actually consumed (C04_decode_output_bounded, C04_prim_size_bounded),
   and so is what whole trees and whole messages hold after an accepted Unpack: the bytes of every populated primitive at
   every depth are at most four times the bytes consumed - announced lengths never enter (C04_tree_size_bounded,
   C04_message_size_bounded; the shipped specifications satisfy the hypotheses: C04_shipped_specs_sized). Track fields
   answer every byte string with a count or an error (C04_track_no_panic).
   Wall-clock time and the allocator's behaviour are runtime behaviour
   observed by the harness only (each case runs in a child process under ulimit -v and a timeout). *)
From Iso Require Import Model.Base Model.Padding Model.Encoding Model.Prefix Model.Bitmap Model.Spec Model.Field
     Proofs.BaseLemmas Proofs.EncodingProofs Proofs.PrefixProofs Proofs.FieldProofs Proofs.BitmapProofs Proofs.CompositeProofs Proofs.NoPanicProofs.
From Iso Require Import Proofs.AllocProofs.
From Iso Require Import Model.Message Proofs.MessageRoundtrip Proofs.CoherenceCheck Gen.ShippedSpecs.

Theorem C04_enc_decode_total : forall e d n, match enc_decode e d n with Ok _ | Err _ => True | _ => False end.
Proof. exact enc_decode_total. Qed.
Print Assumptions C04_enc_decode_total.

Theorem C04_dec_len_total : forall p max d, match dec_len p max d with Ok _ | Err _ => True | _ => False end.
Proof. exact dec_len_total. Qed.
Print Assumptions C04_dec_len_total.

Theorem C04_prim_no_panic : forall p data, 0 <= ps_len p ->
  match prim_unpack_raw p data with Ok _ | Err _ => True | _ => False end.
Proof. exact prim_unpack_raw_total. Qed.
Print Assumptions C04_prim_no_panic.

(* an accepted decode never reads (hence never copies) more than the input holds *)
Theorem C04_read_bounded : forall e d n v r, enc_decode e d n = Ok (v, r) -> 0 <= r <= zlen d.
Proof. exact enc_decode_read_bounds. Qed.
Print Assumptions C04_read_bounded.

Theorem C04_bitmap_loop_terminates : forall s minLen, 1 <= minLen -> bm_enc s <> EncBerTag ->
  forall fuel rest read acc, (length rest < fuel)%nat -> snd (bm_unpack_loop fuel s minLen rest read acc) <> OutOfFuel.
Proof. exact bm_unpack_loop_progress. Qed.
Print Assumptions C04_bitmap_loop_terminates.

Theorem C04_field_no_panic : forall s, wfs s -> forall st d, okstate s st ->
  good (snd (unpack_f s st d)) /\ okstate s (fst (unpack_f s st d)).
Proof. exact unpack_f_good. Qed.
Print Assumptions C04_field_no_panic.

Theorem C04_new_objects_ok : forall s, wfs s -> okstate s (fresh s).
Proof. exact fresh_okstate. Qed.
Print Assumptions C04_new_objects_ok.

Theorem C04_message_no_panic : forall S m d, wfm S -> okmsg S (m_fields m) -> good (snd (m_unpack S m d)).
Proof. exact m_unpack_good. Qed.
Print Assumptions C04_message_no_panic.

(* the five shipped specifications (regenerated on every run) satisfy wfm: no byte string makes Unpack of any of them
   panic or loop; new message objects satisfy okmsg (C04_new_objects_ok per field) *)
Theorem C04_shipped_specs : forall name t, In (name, t) shipped_specs -> exists MS, spec_of_string t = Some MS /\ wfm MS.
Proof.
  assert (H : forallb (fun nt : String.string * String.string => match spec_of_string (snd nt) with Some MS => wfmb MS | None => false end) shipped_specs = true)
    by (vm_compute; reflexivity).
  intros name t Hi. rewrite forallb_forall in H. specialize (H (name, t) Hi). cbn [snd] in H.
  destruct (spec_of_string t) as [MS|]; [|discriminate]. exists MS. split; [reflexivity|apply wfmb_sound; exact H].
Qed.
Print Assumptions C04_shipped_specs.

Example C04_ex : is_err (dec_len PBerTLV 0 [x88; xff; xff; xff; xff; xff; xff; xff; xff]) = true /\
                 is_err (enc_decode EncLBCD [x12] 1099511627776) = true.
Proof. split; vm_compute; reflexivity. Qed.

(* allocation follows the input that is present, never an announced length: what a decoder returns is at most twice the
   bytes it consumed (nibbles to characters, Latin-1 to UTF-8), and what a primitive field holds after an accepted
   Unpack at most four times (a Hex field keeps the text form) *)
Theorem C04_decode_output_bounded : forall e d n v r, enc_decode e d n = Ok (v, r) -> zlen v <= 2 * r /\ 0 <= r <= zlen d.
Proof. exact decode_output_bounded. Qed.
Print Assumptions C04_decode_output_bounded.

Theorem C04_prim_size_bounded : forall p st0 d st n, 0 <= ps_len p -> ps_packer p = PkDefault -> prim_unpack p st0 d = (st, UOk n) ->
  prim_size st <= 4 * n /\ 0 <= n <= zlen d.
Proof. exact prim_unpack_size. Qed.
Print Assumptions C04_prim_size_bounded.

(* track fields (Model/Track.v): Unpack and SetBytes of a Track1 / Track2 / Track3 field answer every byte string with a
   count or an error *)
From Iso Require Import Model.Track Proofs.TrackNoPanic.
Theorem C04_track_no_panic : forall k p t data, 0 <= ps_len p ->
  match snd (t_unpack k p t data) with Ok _ | Err _ => True | _ => False end.
Proof. exact t_unpack_total. Qed.
Print Assumptions C04_track_no_panic.
Theorem C04_track_setbytes_no_panic : forall k t raw, match snd (t_setbytes k t raw) with Ok _ | Err _ => True | _ => False end.
Proof. exact t_setbytes_total. Qed.
Print Assumptions C04_track_setbytes_no_panic.

(* allocation for whole trees: what a field holds after an accepted Unpack - the bytes of every populated primitive at every
   depth (tree_size) - is at most four times the bytes the field consumed from the input, for every well-formed specification
   whose primitives use the default packer; an announced length never enters the bound *)
From Iso Require Import Proofs.SizeTree Properties.C01.
Theorem C04_tree_size_bounded : forall s, wfs s -> plain s -> forall st0 d st n, unpack_f s st0 d = (st, UOk n) ->
  tree_size s st <= 4 * n /\ 0 <= n.
Proof. exact unpack_size_tree. Qed.
Print Assumptions C04_tree_size_bounded.
(* the hypotheses hold of the nested example specification of C01, and its accepted encoding of 12 bytes leaves 1 byte held
   (the Numeric element holds none, the Binary element one) *)
Example C04_ex_tree : wfs c_ex /\ plain c_ex /\
  (let r := unpack_f c_ex (fresh c_ex) [x31; x30; x30; x31; x30; x31; x37; x30; x32; x01; x41; x42] in
   snd r = UOk 12 /\ tree_size c_ex (fst r) = 1).
Proof.
  split; [|split; [cbn; tauto|vm_compute; split; reflexivity]].
  cbn [wfs c_ex]. split; [lia|]. split; [repeat constructor; cbn; intuition discriminate|]. split; [cbn; left; lia|]. cbn. lia.
Qed.

(* whole messages: what a message holds after an accepted Unpack - the MTI and every populated data element at every depth -
   is at most four times the bytes consumed; the five shipped specifications (regenerated on every run) satisfy the
   hypotheses (sized: non-negative lengths, default packers, distinct ids from 2 up, well-formed elements) *)
Theorem C04_message_size_bounded : forall S m0 d m n, sized S -> m_unpack S m0 d = (m, UOk n) -> msg_size S m <= 4 * n /\ 0 <= n.
Proof. intros S m0 d m n (H1 & H2 & H3 & H4). apply message_size_bounded; assumption. Qed.
Print Assumptions C04_message_size_bounded.
Theorem C04_shipped_specs_sized : forall name t, In (name, t) shipped_specs -> exists MS, spec_of_string t = Some MS /\ sized MS.
Proof.
  assert (H : forallb (fun nt : String.string * String.string => match spec_of_string (snd nt) with Some MS => sizedb MS | None => false end) shipped_specs = true)
    by (vm_compute; reflexivity).
  intros name t Hi. rewrite forallb_forall in H. specialize (H (name, t) Hi). cbn [snd] in H.
  destruct (spec_of_string t) as [MS|]; [|discriminate]. exists MS. split; [reflexivity|apply sizedb_sound; exact H].
Qed.
Print Assumptions C04_shipped_specs_sized.
