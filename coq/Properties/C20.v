(* C20 Padding laws: exact width, no truncation, reversible, non-aliasing.
   Statements only; proofs are in Proofs/PaddingProofs.v. The model is Model/Padding.v. *)
From Iso Require Import Model.Base Model.Padding Proofs.PaddingProofs.

(* Pad returns the value unchanged when it already has the target length or more *)
Theorem C20_noop : forall p v n, n <= zlen v -> pad p v n = v.
Proof. exact pad_noop. Qed.
Print Assumptions C20_noop.

(* otherwise the result has exactly the target length ... *)
Theorem C20_len : forall p v n, p <> PadNone -> zlen v < n -> zlen (pad p v n) = n.
Proof. exact pad_len. Qed.
Print Assumptions C20_len.

(* ... made of pad characters followed (left) or preceded (right) by the value *)
Theorem C20_shape_left : forall c v n, zlen v < n ->
  pad (PadLeft c) v n = repeat c (Z.to_nat (n - zlen v)) ++ v.
Proof. exact pad_left_shape. Qed.
Print Assumptions C20_shape_left.

Theorem C20_shape_right : forall c v n, zlen v < n ->
  pad (PadRight c) v n = v ++ repeat c (Z.to_nat (n - zlen v)).
Proof. exact pad_right_shape. Qed.
Print Assumptions C20_shape_right.

(* Unpad removes only pad characters and only from the padded side (and all of them) *)
Theorem C20_unpad_only_pad_left : forall c v,
  exists k, v = repeat c k ++ unpad (PadLeft c) v /\ starts_with c (unpad (PadLeft c) v) = false.
Proof. exact unpad_left_only_pad. Qed.
Print Assumptions C20_unpad_only_pad_left.

Theorem C20_unpad_only_pad_right : forall c v,
  exists k, v = unpad (PadRight c) v ++ repeat c k /\ ends_with c (unpad (PadRight c) v) = false.
Proof. exact unpad_right_only_pad. Qed.
Print Assumptions C20_unpad_only_pad_right.

(* Unpad (Pad v n) = v whenever v does not itself begin (left) / end (right) with the pad *)
Theorem C20_inverse_left : forall c v n, starts_with c v = false -> unpad (PadLeft c) (pad (PadLeft c) v n) = v.
Proof. exact unpad_pad_left. Qed.
Print Assumptions C20_inverse_left.

Theorem C20_inverse_right : forall c v n, ends_with c v = false -> unpad (PadRight c) (pad (PadRight c) v n) = v.
Proof. exact unpad_pad_right. Qed.
Print Assumptions C20_inverse_right.

(* the no-op padder returns its input *)
Theorem C20_none_id : forall v n, pad PadNone v n = v /\ unpad PadNone v = v.
Proof. exact pad_none. Qed.
Print Assumptions C20_none_id.

(* no padder writes to the spare capacity behind the slice it is given (the model's append semantics:
   go_append_inplace would write there; every padder uses a fresh buffer) *)
Theorem C20_no_write : forall p v spare n, snd (pad_mem p v spare n) = spare.
Proof. exact pad_no_write. Qed.
Print Assumptions C20_no_write.

(* non-vacuity: concrete instances of the hypotheses and of the conclusions *)
Example C20_ex1 : pad (PadLeft x30) [x31; x32] 5 = [x30; x30; x30; x31; x32] /\ starts_with x30 [x31; x32] = false.
Proof. split; reflexivity. Qed.
Example C20_ex2 : unpad (PadRight x20) [x61; x20; x62; x20; x20] = [x61; x20; x62].
Proof. reflexivity. Qed.
Example C20_ex3 : go_append_inplace [x61] [x58; x59] [x20] = ([x61; x20], [x20; x59]).
Proof. reflexivity. Qed.
