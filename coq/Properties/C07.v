(* C07 Value encodings are exact inverses with the standard byte layouts.
   Model: Model/Encoding.v over the generated tables Gen/EbcdicTables.v; proofs in Proofs/EncodingProofs.v. *)
From Iso Require Import Model.Base Model.Encoding Gen.EbcdicTables Spec.CodePages Proofs.BaseLemmas Proofs.EncodingProofs.

(* For each encoding and every value x in its domain, decoding the encoding of x for the number of units
   in x returns x (in canonical form: upper-case hex for the hex->bytes encoders) and reports consuming
   exactly the encoded length, whatever bytes follow. *)
Theorem C07_roundtrip : forall e x, enc_dom e x = true ->
  exists w, enc_encode e x = Ok w /\
            forall rest, enc_decode e (w ++ rest) (enc_units e x w) = Ok (enc_canon e x w, zlen w).
Proof. exact enc_roundtrip. Qed.
Print Assumptions C07_roundtrip.

(* packed BCD is two digits per byte, high nibble first; an odd count is zero-filled on the left (BCD)
   or on the right (LBCD) *)
Theorem C07_layout_bcd : forall x, all_digits x = true ->
  exists w, enc_encode EncBCD x = Ok w /\
            nibbles w = (if Nat.even (length x) then [] else [0]) ++ map (fun c => bz c - 48) x.
Proof.
  intros x H. cbn [enc_encode]. destruct (Nat.even (length x)) eqn:E.
  - rewrite H. eexists; split; [reflexivity|]. apply nibbles_bcd_pack; assumption.
  - assert (H' : all_digits (x30 :: x) = true) by (unfold all_digits in *; cbn [forallb]; rewrite H; reflexivity).
    rewrite H'. eexists; split; [reflexivity|].
    rewrite nibbles_bcd_pack by (try apply even_length_cons_odd; assumption). reflexivity.
Qed.
Print Assumptions C07_layout_bcd.

Theorem C07_layout_lbcd : forall x, all_digits x = true ->
  exists w, enc_encode EncLBCD x = Ok w /\
            nibbles w = map (fun c => bz c - 48) x ++ (if Nat.even (length x) then [] else [0]).
Proof.
  intros x H. cbn [enc_encode]. destruct (Nat.even (length x)) eqn:E.
  - rewrite H. eexists; split; [reflexivity|]. rewrite app_nil_r. apply nibbles_bcd_pack; assumption.
  - assert (H' : all_digits (x ++ [x30]) = true) by (unfold all_digits in *; rewrite forallb_app, H; reflexivity).
    rewrite H'. eexists; split; [reflexivity|].
    rewrite nibbles_bcd_pack by (try apply even_length_snoc_odd; assumption). rewrite map_app. reflexivity.
Qed.
Print Assumptions C07_layout_lbcd.

(* hex is upper case *)
Theorem C07_layout_hex : forall x, exists w, enc_encode EncHex x = Ok w /\ zlen w = 2 * zlen x /\
  Forall (fun c => (48 <= bz c <= 57) \/ (65 <= bz c <= 70)) w /\ hex_decode w = Some x.
Proof.
  intros x. eexists; split; [reflexivity|]. split; [apply zlen_hex_encode|]. split; [apply hex_upper_alphabet|apply hex_decode_encode].
Qed.
Print Assumptions C07_layout_hex.

(* the EBCDIC tables (the literals of encoding/ebcdic.go and the CP1047 charmap, regenerated from the
   source on every run) are bijections ... *)
Theorem C07_ebcdic_bijection : forall b,
  tbl ebcdic_e2a (tbl ebcdic_a2e b) = b /\ tbl ebcdic_a2e (tbl ebcdic_e2a b) = b /\
  tbl cp1047_dec (tbl cp1047_enc b) = b /\ tbl cp1047_enc (tbl cp1047_dec b) = b.
Proof.
  intros b. repeat split; [apply ebcdic_e2a_a2e | apply ebcdic_a2e_e2a | apply cp1047_dec_enc | apply cp1047_enc_dec].
Qed.
Print Assumptions C07_ebcdic_bijection.

(* ... agreeing with code pages 500 / 1047 on letters, digits and common punctuation *)
Theorem C07_ebcdic_codepages :
  forallb (fun '(a, e) => Byte.eqb (tbl ebcdic_a2e a) e && Byte.eqb (tbl ebcdic_e2a e) a) cp500_ref = true /\
  forallb (fun '(a, e) => Byte.eqb (tbl cp1047_enc a) e && Byte.eqb (tbl cp1047_dec e) a) cp1047_ref = true.
Proof. split; vm_compute; reflexivity. Qed.
Print Assumptions C07_ebcdic_codepages.

(* a BER tag continues while the first byte's low five bits are all set and following bytes have their
   top bit set: Decode accepts exactly the well-formed tags, ignoring what follows *)
Theorem C07_bertag_rule : forall t rest, ber_wf t = true ->
  enc_decode EncBerTag (t ++ rest) 0 = Ok (hex_encode_upper t, zlen t).
Proof.
  intros t rest H. unfold enc_decode. rewrite ber_tag_len_wf by exact H. rewrite ztake_app. reflexivity.
Qed.
Print Assumptions C07_bertag_rule.

Theorem C07_bertag_sound : forall d n v r, enc_decode EncBerTag d n = Ok (v, r) ->
  ber_wf (ztake r d) = true /\ v = hex_encode_upper (ztake r d) /\ 1 <= r <= zlen d.
Proof. exact bertag_decode_sound. Qed.
Print Assumptions C07_bertag_sound.

(* negative lengths or short input produce an error *)
Theorem C07_dec_rejects : forall e d n, e <> EncBerTag ->
  (n < 0 \/ zlen d < enc_min_bytes e n) -> is_err (enc_decode e d n) = true.
Proof. exact enc_decode_rejects. Qed.
Print Assumptions C07_dec_rejects.

(* an accepted decode never reads outside the data ... *)
Theorem C07_dec_read_bounds : forall e d n v r, enc_decode e d n = Ok (v, r) -> 0 <= r <= zlen d.
Proof. exact enc_decode_read_bounds. Qed.
Print Assumptions C07_dec_read_bounds.

(* ... and never returns a wrong value: accepted BCD bytes hold two decimal digits each and the value
   is exactly those digits *)
Theorem C07_dec_sound_bcd : forall d n v r, enc_decode EncBCD d n = Ok (v, r) ->
  exists s, bcd_pack s = ztake r d /\ all_digits s = true /\ v = zdrop (2 * r - n) s /\ zlen v = n /\ r = (n + 1) / 2.
Proof. exact bcd_decode_sound. Qed.
Print Assumptions C07_dec_sound_bcd.

Theorem C07_dec_sound_lbcd : forall d n v r, enc_decode EncLBCD d n = Ok (v, r) ->
  exists s, bcd_pack s = ztake r d /\ all_digits s = true /\ v = ztake n s /\ zlen v = n /\ r = (n + 1) / 2.
Proof. exact lbcd_decode_sound. Qed.
Print Assumptions C07_dec_sound_lbcd.

Theorem C07_dec_sound_ascii : forall d n v r, enc_decode EncASCII d n = Ok (v, r) ->
  v = ztake n d /\ r = n /\ all_ascii v = true /\ zlen v = n.
Proof. exact ascii_decode_sound. Qed.
Print Assumptions C07_dec_sound_ascii.

(* non-vacuity *)
Example C07_ex_bcd : enc_encode EncBCD [x31; x32; x33] = Ok [x01; x23] /\ enc_decode EncBCD [x01; x23; xff] 3 = Ok ([x31; x32; x33], 2).
Proof. split; vm_compute; reflexivity. Qed.
Example C07_ex_lbcd : enc_encode EncLBCD [x31; x32; x33] = Ok [x12; x30].
Proof. vm_compute; reflexivity. Qed.
Example C07_ex_filler_rejected : is_err (enc_decode EncBCD [x12; x1f] 4) = true.
Proof. vm_compute; reflexivity. Qed.
Example C07_ex_bertag : enc_dom EncBerTag [x39; x46; x33; x37] = true /\ enc_decode EncBerTag [x9f; x37; x04] 9 = Ok ([x39; x46; x33; x37], 2).
Proof. split; vm_compute; reflexivity. Qed.
Example C07_ex_ebcdic : enc_encode EncEBCDIC [x41; x31] = Ok [xc1; xf1].
Proof. vm_compute; reflexivity. Qed.
