(* C09 TLV composites: order-insensitive decode, exact skipping, canonical encode.
   Proved: the model of sort.Slice (insertion sort) returns a sorted permutation of the tags for every strict total
   order, so Pack's emission order is the unique sorted order whatever order the spec map is walked in; a composite's
   Unpack consumes exactly the announced length or fails (C08_comp_unpack). The permutation / skipping theorems over
   the TLV loop (C09_statements) are checked by the oracle on all permutations of up to 4 (thorough: 6) elements
   and not yet proved. *)
From Coq Require Import Sorting.Permutation Sorting.Sorted.
From Iso Require Import Model.Base Model.Spec Model.Field Proofs.BaseLemmas Proofs.SortProofs Proofs.FieldProofs Properties.C01.

Theorem C09_sort_perm : forall less l, Permutation l (fold_right (insert_sorted less) [] l).
Proof. exact sort_perm. Qed.
Print Assumptions C09_sort_perm.

Theorem C09_sort_sorted : forall less,
  (forall a b, a <> b -> less a b = true \/ less b a = true) ->
  forall l, Sorted (le' less) (fold_right (insert_sorted less) [] l).
Proof. intros less Ht l. apply sort_sorted. exact Ht. Qed.
Print Assumptions C09_sort_sorted.

(* the two subfields are emitted once each, in the sort order, whatever the order of the spec list and of the set *)
Example C09_ex_order :
  pack_f c_ex (SComp [[x32]; [x31]] [([x32], SBinary [xab]); ([x31], SNumeric 42)]) =
  pack_f c_ex (SComp [[x31]; [x32]] [([x31], SNumeric 42); ([x32], SBinary [xab])]).
Proof. vm_compute; reflexivity. Qed.
(* elements in the other order decode to the same value *)
Example C09_ex_perm :
  fst (unpack_f c_ex (fresh c_ex) [x31; x32; x30; x32; x01; x41; x42; x30; x31; x30; x32; x34; x32]) =
  fst (unpack_f c_ex (fresh c_ex) [x31; x32; x30; x31; x30; x32; x34; x32; x30; x32; x01; x41; x42]).
Proof. vm_compute; reflexivity. Qed.
