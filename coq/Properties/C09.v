(* C09 TLV composites: order-insensitive decode, exact skipping, canonical encode.
   Proved: the model of sort.Slice (insertion sort) returns a sorted permutation of the tags for every strict total
   order, so Pack's emission order is the unique sorted order whatever order the spec map is walked in; a composite's
   Unpack consumes exactly the announced length or fails (C08_comp_unpack); the elements of the set subfields emitted in
   ANY arrangement decode, into any object of the specification and for any nested coherent subfields, to equivalent
   states (C09_any_order: order-insensitive decode); an unknown element is skipped exactly - tag, length prefix and the
   announced value bytes, nothing else (C09_skip_exact) - or, with skipping off, reported by its tag (C09_unknown_named);
   Pack emits each set subfield once (C09_pack_once) with its tag padded and encoded as declared (C03_composite_layout).
   The oracle checks the same on all permutations of up to 4 (thorough: 6) elements with unknown elements at every
   position against the library. *)
From Coq Require Import Sorting.Permutation Sorting.Sorted.
From Iso Require Import Model.Base Model.Padding Model.Encoding Model.Prefix Model.Spec Model.Field Proofs.BaseLemmas Proofs.SortProofs Proofs.FieldProofs Proofs.CompositeProofs Proofs.TlvProofs Properties.C01.

Theorem C09_sort_perm : forall less l, Permutation l (fold_right (insert_sorted less) [] l).
Proof. exact sort_perm. Qed.
Print Assumptions C09_sort_perm.

Theorem C09_sort_sorted : forall less,
  (forall a b, a <> b -> less a b = true \/ less b a = true) ->
  forall l, Sorted (le' less) (fold_right (insert_sorted less) [] l).
Proof. intros less Ht l. apply sort_sorted. exact Ht. Qed.
Print Assumptions C09_sort_sorted.

Theorem C09_any_order : forall pref len t e subs set sts order body pre st0 rest,
  let s := FComp pref len (CTag t) subs in
  coherent s -> tg_enc t = Some e -> in_dom s (SComp set sts) ->
  NoDup order -> (forall tag, bmem tag set = true <-> In tag order) ->
  pack_by_tag (gop subs) t order set sts = Ok body -> zlen body <= max_int ->
  enc_len pref len (zlen body) = Ok pre -> shaped s st0 ->
  exists st', unpack_f s st0 (pre ++ body ++ rest) = (st', UOk (zlen pre + zlen body)) /\ equiv s (SComp set sts) st'.
Proof. exact tlv_any_order. Qed.
Print Assumptions C09_any_order.

Theorem C09_skip_exact : forall unpackers freshes t e fuel data off set sts tagb tread flen lread,
  zlen data <=? off = false ->
  enc_decode e (zdrop off data) (tg_len t) = Ok (tagb, tread) ->
  blookup (unpad (tg_pad t) tagb) unpackers = None -> skip_unknown t = true ->
  dec_len (match tg_prefunk t with Some p => p | None => PBerTLV end) (match tg_prefunk t with Some _ => max_int | None => 0 end) (zdrop (off + tread) data) = Ok (flen, lread) ->
  (flen <? 0) || (zlen data - (off + tread) - lread <? flen) = false ->
  unpack_by_tag unpackers freshes (S fuel) t e data off set sts = unpack_by_tag unpackers freshes fuel t e data (off + tread + flen + lread) set sts.
Proof. exact tlv_skip_exact. Qed.
Print Assumptions C09_skip_exact.

Theorem C09_unknown_named : forall unpackers freshes t e fuel data off set sts tagb tread,
  zlen data <=? off = false ->
  enc_decode e (zdrop off data) (tg_len t) = Ok (tagb, tread) ->
  blookup (unpad (tg_pad t) tagb) unpackers = None -> skip_unknown t = false ->
  exists err, unpack_by_tag unpackers freshes (S fuel) t e data off set sts = ((set, sts), UErr [unpad (tg_pad t) tagb] err).
Proof. exact tlv_unknown_named. Qed.
Print Assumptions C09_unknown_named.

Theorem C09_pack_once : forall pref len t subs, coherent (FComp pref len (CTag t) subs) ->
  NoDup (ordered_tags (CTag t) subs) /\ Permutation (map fst subs) (ordered_tags (CTag t) subs).
Proof. exact tlv_pack_once. Qed.
Print Assumptions C09_pack_once.

(* the two subfields are emitted once each, in the sort order, whatever the order of the spec list and of the set *)
Example C09_ex_order :
  pack_f c_ex (SComp [[x32]; [x31]] [([x32], SBinary [xab]); ([x31], SNumeric 42)]) =
  pack_f c_ex (SComp [[x31]; [x32]] [([x31], SNumeric 42); ([x32], SBinary [xab])]).
Proof. vm_compute; reflexivity. Qed.
(* elements in the other order decode to the same value *)
Example C09_ex_perm :
  fst (unpack_f c_ex (fresh c_ex) [x31; x32; x30; x32; x01; x41; x42; x30; x31; x30; x32; x34; x32]) =
  fst (unpack_f c_ex (fresh c_ex) [x31; x32; x30; x31; x30; x32; x34; x32; x30; x32; x01; x41; x42]).
Proof. vm_compute; reflexivity. Qed.
