(* C03 Packed bytes follow the ISO 8583 layout the spec defines.
   Proved for every primitive field: the packed bytes are the length prefix - exactly the prefixer's width, in its
   alphabet, decoding to the number of value units after padding - followed by the padded value in the field's
   encoding, and bytes laid out that way unpack to the value; for every tagged or positional composite: its prefix
   followed by its set subfields - and nothing else - in the spec's sort order, each preceded by its encoded tag when
   tags travel; for every message (auto-expanding or fixed bitmap): the MTI, then the bitmap - with expansion k >= 1
   blocks in which the first bit of a block is set iff another block follows - in which, elsewhere, bit i is set iff
   data element i is populated, then
   the populated data elements in strictly ascending order. Conversely these bytes unpack to the values they were
   built from (C01_field_roundtrip, C01_message_roundtrip). For composites with a (fixed) bitmap of subfields: prefix,
   bitmap in which bit n is set iff subfield n is set, the set subfields in id order. The independent encoder of the
   harness (harness/reflayout.go) is compared with Pack/Unpack on every generated case as well. *)
From Iso Require Import Model.Base Model.Padding Model.Encoding Model.Prefix Model.Bitmap Model.Spec Model.Field Model.Message
     Proofs.BaseLemmas Proofs.EncodingProofs Proofs.PrefixProofs Proofs.FieldProofs Proofs.CompositeProofs Proofs.MessageRoundtrip Proofs.LayoutProofs.
From Coq Require Import Sorting.Sorted Sorting.Permutation.

Theorem C03_prim_layout : forall p st b, coherent_pspec p -> prim_in_domain p st -> prim_pack p st = Ok b ->
  exists raw pre body,
    prim_raw st = Ok raw /\ b = pre ++ body /\
    enc_encode (ps_enc p) (pad (ps_pad p) raw (ps_len p)) = Ok body /\
    (ps_pref p <> PBerTLV -> zlen pre = pref_width (ps_pref p)) /\ pref_alphabet (ps_pref p) pre = true /\
    (forall rest, dec_len (ps_pref p) (ps_len p) (pre ++ rest) = Ok (zlen (pad (ps_pad p) raw (ps_len p)), zlen pre)).
Proof.
  intros p st b (Hwf & Hve & Hpk & HL) (raw & Hraw & Hset & Hdom & Hmax) Hp.
  unfold prim_pack in Hp. rewrite Hraw in Hp. cbn [obind] in Hp. unfold prim_pack_raw in Hp. rewrite Hpk in Hp.
  destruct (enc_encode (ps_enc p) _) as [body| | |] eqn:Ee; cbn [obind] in Hp; try discriminate.
  destruct (enc_len (ps_pref p) (ps_len p) _) as [pre| | |] eqn:Ep; cbn [obind] in Hp; try discriminate.
  exists raw, pre, body. split; [exact Hraw|]. split; [congruence|]. split; [exact Ee|].
  assert (Hg : go_len (zlen (pad (ps_pad p) raw (ps_len p)))) by (unfold go_len; pose proof (zlen_nonneg (pad (ps_pad p) raw (ps_len p))); lia).
  destruct (pref_roundtrip _ _ _ _ Hwf Hg Ep) as (H1 & H2 & H3). repeat split; assumption.
Qed.
Print Assumptions C03_prim_layout.

(* conversely: bytes laid out by this definition unpack to the value they were built from *)
Theorem C03_prim_layout_unpacks : forall p st b, coherent_pspec p -> prim_in_domain p st -> prim_pack p st = Ok b ->
  forall st0 rest, prim_unpack p st0 (b ++ rest) = (st, UOk (zlen b)).
Proof. exact prim_roundtrip. Qed.
Print Assumptions C03_prim_layout_unpacks.

Theorem C03_composite_layout : forall pref len t subs set sts b, wf_pref pref -> pack_f (FComp pref len (CTag t) subs) (SComp set sts) = Ok b ->
  exists pre elems, b = pre ++ concat elems /\
    Forall2 (elem_of (gop subs) t sts) (filter (fun tag => bmem tag set) (ordered_tags (CTag t) subs)) elems /\
    enc_len pref len (zlen (concat elems)) = Ok pre /\
    (zlen (concat elems) <= max_int -> (pref <> PBerTLV -> zlen pre = pref_width pref) /\ pref_alphabet pref pre = true /\
       forall rest, dec_len pref len (pre ++ rest) = Ok (zlen (concat elems), zlen pre)).
Proof. exact comp_layout. Qed.
Print Assumptions C03_composite_layout.

Theorem C03_bitmap_composite_layout : forall pref len b subs set sts bytes0, wf_pref pref -> bm_auto b = false ->
  (forall tag, In tag (map fst subs) -> canon tag) ->
  pack_f (FComp pref len (CBitmap b) subs) (SComp set sts) = Ok bytes0 ->
  exists pre bmf pbm fields,
    bytes0 = pre ++ pbm ++ fields /\ bm_pack b bmf = Ok pbm /\ zlen bmf = zlen (bm_new b) /\
    (forall m, bm_isset bmf m = existsb (fun tag => bmem tag set && (num_of tag =? m)) (ordered_tags (CBitmap b) subs)) /\
    pack_sel (gop subs) sts (filter (fun tag => bmem tag set) (ordered_tags (CBitmap b) subs)) = Ok fields /\
    enc_len pref len (zlen (pbm ++ fields)) = Ok pre.
Proof. exact comp_bitmap_layout. Qed.
Print Assumptions C03_bitmap_composite_layout.

(* the order of the elements: the tags of the specification, sorted *)
Theorem C03_composite_order : forall mode subs, Permutation (map fst subs) (ordered_tags mode subs).
Proof. exact ordered_tags_is_perm. Qed.
Print Assumptions C03_composite_order.

Theorem C03_message_layout : forall S m m' b f, 1 <= bm_len (ms_bm S) -> (bm_enc (ms_bm S) = EncBinary \/ bm_enc (ms_bm S) = EncHex) -> bm_pref (ms_bm S) = PFixed f ->
  NoDup (m_present m) -> zmem 0 (m_present m) = true ->
  (forall id, zmem id (m_present m) = true -> id = 0 \/ id = 1 \/ (2 <= id /\ bm_is_presence_bit (ms_bm S) id = false)) ->
  m_pack S m = (m', Ok b) ->
  exists l mtib bmb parts,
    b = mtib ++ bmb ++ concat parts /\
    pack_f (FPrim (ms_mti S)) (m_mti m) = Ok mtib /\
    bm_pack (ms_bm S) (m_bm m') = Ok bmb /\
    StronglySorted Z.lt l /\ (forall id, In id l <-> (2 <= id /\ zmem id (m_present m) = true)) /\
    Forall2 (fun id p => exists s st, zlookup id (ms_fields S) = Some s /\ zlookup id (m_fields m) = Some st /\ pack_f s st = Ok p) l parts /\
    (forall i, 2 <= i -> bm_is_presence_bit (ms_bm S) i = false -> bm_isset (m_bm m') i = zmem i (m_present m)).
Proof. exact message_layout. Qed.
Print Assumptions C03_message_layout.

Theorem C03_bitmap_blocks : forall S m m' b, bm_auto (ms_bm S) = true -> 1 <= bm_len (ms_bm S) -> m_pack S m = (m', Ok b) ->
  exists k, 1 <= k /\ zlen (m_bm m') = k * bm_len (ms_bm S) /\
            forall j, 0 <= j < k -> bm_isset (m_bm m') (j * (bm_len (ms_bm S) * 8) + 1) = (j <? k - 1).
Proof. exact message_bitmap_blocks. Qed.
Print Assumptions C03_bitmap_blocks.

Definition p3 : pspec := {| ps_kind := KNumeric; ps_enc := EncBCD; ps_pref := PVar PfEBCDIC 2; ps_len := 5; ps_pad := PadNone; ps_packer := PkDefault |}.
Example C03_ex : prim_pack p3 (SNumeric 123) = Ok [xf0; xf3; x01; x23].
Proof. vm_compute; reflexivity. Qed.
