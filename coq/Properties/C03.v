(* C03 Packed bytes follow the ISO 8583 layout the spec defines.
   Proved for every primitive field: the packed bytes are the length prefix - exactly the prefixer's width, in its
   alphabet, decoding to the number of value units after padding - followed by the padded value in the field's
   encoding, and bytes laid out that way unpack to the value. The reference codec for composites and messages is the
   independent encoder of the harness (harness/reflayout.go), compared with Pack/Unpack directly on every generated
   case; its Gallina counterpart (C03_statement) is not yet written. *)
From Iso Require Import Model.Base Model.Padding Model.Encoding Model.Prefix Model.Bitmap Model.Spec Model.Field
     Proofs.BaseLemmas Proofs.EncodingProofs Proofs.PrefixProofs Proofs.FieldProofs.

Theorem C03_prim_layout : forall p st b, coherent_pspec p -> prim_in_domain p st -> prim_pack p st = Ok b ->
  exists raw pre body,
    prim_raw st = Ok raw /\ b = pre ++ body /\
    enc_encode (ps_enc p) (pad (ps_pad p) raw (ps_len p)) = Ok body /\
    (ps_pref p <> PBerTLV -> zlen pre = pref_width (ps_pref p)) /\ pref_alphabet (ps_pref p) pre = true /\
    (forall rest, dec_len (ps_pref p) (ps_len p) (pre ++ rest) = Ok (zlen (pad (ps_pad p) raw (ps_len p)), zlen pre)).
Proof.
  intros p st b (Hwf & Hve & Hpk & HL) (Hcan & raw & Hraw & Hpad & Hdom & Hmax) Hp.
  unfold prim_pack in Hp. rewrite Hraw in Hp. cbn [obind] in Hp. unfold prim_pack_raw in Hp. rewrite Hpk in Hp.
  destruct (enc_encode (ps_enc p) _) as [body| | |] eqn:Ee; cbn [obind] in Hp; try discriminate.
  destruct (enc_len (ps_pref p) (ps_len p) _) as [pre| | |] eqn:Ep; cbn [obind] in Hp; try discriminate.
  exists raw, pre, body. split; [exact Hraw|]. split; [congruence|]. split; [exact Ee|].
  assert (Hg : go_len (zlen (pad (ps_pad p) raw (ps_len p)))) by (unfold go_len; pose proof (zlen_nonneg (pad (ps_pad p) raw (ps_len p))); lia).
  destruct (pref_roundtrip _ _ _ _ Hwf Hg Ep) as (H1 & H2 & H3). repeat split; assumption.
Qed.
Print Assumptions C03_prim_layout.

(* conversely: bytes laid out by this definition unpack to the value they were built from *)
Theorem C03_prim_layout_unpacks : forall p st b, coherent_pspec p -> prim_in_domain p st -> prim_pack p st = Ok b ->
  forall st0 rest, prim_unpack p st0 (b ++ rest) = (st, UOk (zlen b)).
Proof. exact prim_roundtrip. Qed.
Print Assumptions C03_prim_layout_unpacks.

Definition p3 : pspec := {| ps_kind := KNumeric; ps_enc := EncBCD; ps_pref := PVar PfEBCDIC 2; ps_len := 5; ps_pad := PadNone; ps_packer := PkDefault |}.
Example C03_ex : prim_pack p3 (SNumeric 123) = Ok [xf0; xf3; x01; x23].
Proof. vm_compute; reflexivity. Qed.
