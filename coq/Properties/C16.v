(* C16 Network length headers frame exactly and reject unrepresentable lengths.
   Model: Model/Network.v (incl. io.ReadFull over a chunked reader); proofs: Proofs/NetworkProofs.v. *)
From Iso Require Import Model.Base Model.Encoding Model.Network Proofs.BaseLemmas Proofs.EncodingProofs Proofs.NetworkProofs.

(* For each header type and every length it can represent, WriteTo emits exactly the header's fixed size
   in the documented format and ReadFrom - from a reader fragmented in any way, e.g. one byte at a time -
   consumes exactly that many bytes and recovers the same length. *)
Theorem C16_roundtrip : forall k n, representable k n = true ->
  exists st w, hdr_set k hinit n = Ok st /\ hdr_write k st = Ok w /\ zlen w = hsize k /\ hdr_format k n w /\
    forall chunks rest, concat chunks = w ++ rest ->
      exists st' restc, hdr_read k hinit chunks = Ok (st', hsize k, restc) /\ hlen st' = n /\ concat restc = rest.
Proof. exact hdr_roundtrip. Qed.
Print Assumptions C16_roundtrip.

(* A length that cannot be represented (negative or too large) is refused by SetLength or WriteTo *)
Theorem C16_refuse : forall k n st, representable k n = false ->
  is_err (hdr_set k st n) = true \/ (exists st', hdr_set k st n = Ok st' /\ is_err (hdr_write k st') = true).
Proof. exact hdr_refuse. Qed.
Print Assumptions C16_refuse.

(* ReadFrom never reports a negative length or panics on arbitrary bytes, whatever the fragmentation and
   wherever the stream ends; on success it has consumed exactly the header size *)
Theorem C16_read_safe : forall k st chunks,
  match hdr_read k st chunks with
  | Ok (st', r, rest) => 0 <= hlen st' /\ r = hsize k /\
                         exists buf, zlen buf = hsize k /\ concat chunks = buf ++ concat rest
  | Err _ => True
  | Panic _ | OutOfFuel => False
  end.
Proof. exact hdr_read_safe. Qed.
Print Assumptions C16_read_safe.

Example C16_ex1 : representable HASCII4 123 = true /\ hdr_write HASCII4 {| hlen := 123; hsess := false |} = Ok [x30; x31; x32; x33].
Proof. split; vm_compute; reflexivity. Qed.
Example C16_ex2 : hdr_read HBCD2 hinit [[x01]; []; [x23; xff]] = Ok ({| hlen := 123; hsess := false |}, 2, [[xff]]).
Proof. vm_compute; reflexivity. Qed.
Example C16_ex3 : representable HBinary2 (-1) = false /\ is_err (hdr_set HBinary2 hinit (-1)) = true /\ is_err (hdr_write HASCII4 {| hlen := 10000; hsess := false |}) = true.
Proof. repeat split; vm_compute; reflexivity. Qed.
