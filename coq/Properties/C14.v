(* C14 One consistent notion of 'present fields' across all operations.
   Proved: for every message state reachable by any operation sequence (the theorems hold for ALL states m, so in
   particular after every step of every history) - the bits of the packed bitmap (continuation bits aside) are
   exactly the ids GetFields reports (m_present), JSON is built from that same set and succeeds iff Pack does,
   Pack changes neither values nor the set (only the bookkeeping id 1). UnsetField removes the id and replaces
   the field's whole state by a fresh one (nothing nested survives). The set itself is characterised per operation:
   a setter adds exactly the id it writes, UnsetField removes exactly its id, and after a successful Unpack - of any
   bytes - it is the MTI, the bitmap and exactly the data elements whose bit is set in the unpacked bitmap
   (C14_set_adds, C14_unset_removes, C14_unpack_set; fixed bitmaps: C14_bitmap_is_getfields_fixed); what Unpack leaves
   below the set is C10. Message.Marshal of a struct over the MTI and primitive data elements adds exactly the ids of
   its non-zero indexed fields (C14_marshal_set); for nested structs the set at every depth is C14_nested_marshal_set /
   C14_message_marshal_set_nested at the end of this file. Unsetting a subfield path of a composite (any depth): nothing at the path is
   populated afterwards, the object there is as new - so nothing below it can come back -, and every path that does not
   pass through it is populated exactly as before (C14_unset_path). UnmarshalJSON adds exactly the keys of the accepted document, for messages and for composites at
   any depth (C14_json_set). Over histories (C14_history_no_resurrection): after any sequence of the state-changing
   operations every data element outside the populated set is exactly as in a new message, so nothing can come back.
   The clause about Unmarshal-into-struct and the no-resurrection clause for paths are checked
   by the oracle (reference set, resurrection check, and: a fresh message given exactly the observable values packs to
   the same bytes after every step of every history). *)
From Iso Require Import Model.Base Model.Bitmap Model.Spec Model.Field Model.Message Model.Json Model.MessageOps Proofs.BaseLemmas Proofs.StateProofs Proofs.MessageRoundtrip Proofs.PresenceProofs Model.Marshal Proofs.MarshalStruct Proofs.UnsetPathProofs Proofs.IndependenceProofs Proofs.PresenceOps Proofs.HistoryProofs.

Theorem C14_bitmap_is_getfields : forall S m m' b, bm_auto (ms_bm S) = true -> 1 <= bm_len (ms_bm S) ->
  m_pack S m = (m', Ok b) ->
  forall i, 2 <= i -> bm_is_presence_bit (ms_bm S) i = false -> bm_isset (m_bm m') i = zmem i (m_present m).
Proof. exact m_pack_bitmap_agrees. Qed.
Print Assumptions C14_bitmap_is_getfields.

Theorem C14_json_is_pack : forall S m, is_ok (snd (m_json S m)) = is_ok (snd (m_pack S m)) /\ fst (m_json S m) = fst (m_pack S m).
Proof. exact m_json_total. Qed.
Print Assumptions C14_json_is_pack.

Theorem C14_pack_keeps_set : forall S m, let m' := fst (m_pack S m) in
  m_mti m' = m_mti m /\ m_fields m' = m_fields m /\ (forall id, id <> 1 -> zmem id (m_present m') = zmem id (m_present m)).
Proof. exact m_pack_pure. Qed.
Print Assumptions C14_pack_keeps_set.

(* unsetting discards the value and everything nested below it *)
Theorem C14_unset_discards : forall S m id s, 2 <= id -> zmem id (m_present m) = true -> zlookup id (ms_fields S) = Some s ->
  zmem id (m_present (m_unset S m id)) = false /\
  (forall st, zlookup id (m_fields m) = Some st -> zlookup id (m_fields (m_unset S m id)) = Some (fresh s)).
Proof.
  intros S m id s Hid Hp Hs. unfold m_unset. rewrite Hp. replace (id =? 0) with false by lia. replace (id =? 1) with false by lia. rewrite Hs.
  cbn [m_present m_fields with_fields with_present]. split.
  - apply zmem_zremove_same.
  - intros st Hst. apply zlookup_zupdate_same. exists st. exact Hst.
Qed.
Print Assumptions C14_unset_discards.

Theorem C14_bitmap_is_getfields_fixed : forall S m m' b, bm_auto (ms_bm S) = false -> 0 <= bm_len (ms_bm S) ->
  m_pack S m = (m', Ok b) ->
  zlen (m_bm m') = bm_len (ms_bm S) /\ forall i, 2 <= i -> bm_isset (m_bm m') i = zmem i (m_present m).
Proof. exact m_pack_bitmap_agrees_fixed. Qed.
Print Assumptions C14_bitmap_is_getfields_fixed.

Theorem C14_set_adds : forall S m id val s st, 2 <= id -> zlookup id (ms_fields S) = Some s -> zlookup id (m_fields m) = Some st ->
  forall i, zmem i (m_present (fst (m_set_field S m id val))) = (i =? id) || zmem i (m_present m).
Proof. exact m_set_field_present. Qed.
Print Assumptions C14_set_adds.

Theorem C14_unset_removes : forall S m id i, zmem i (m_present (m_unset S m id)) = negb (i =? id) && zmem i (m_present m).
Proof. exact m_unset_present. Qed.
Print Assumptions C14_unset_removes.

Theorem C14_unpack_set : forall S m d m' n, m_unpack S m d = (m', UOk n) ->
  zmem 0 (m_present m') = true /\ zmem 1 (m_present m') = true /\
  forall id, 2 <= id -> zmem id (m_present m') = bm_isset (m_bm m') id && negb (bm_is_presence_bit (ms_bm S) id).
Proof. exact m_unpack_present. Qed.
Print Assumptions C14_unpack_set.

(* Marshal: the populated set grows by exactly the ids of the struct's non-zero indexed fields *)
Theorem C14_marshal_set : forall S l m, Forall (row_ok S) l -> has_states S m -> NoDup (map rid (filter live l)) ->
  exists m', m_marshal_fields S m l = (m', Ok tt) /\
    forall id, zmem id (m_present m') = zmem id (m_present m) || existsb (fun r => live r && (rid r =? id)) l.
Proof.
  intros S l m Hok Hst Hnd. destruct (marshal_rows S l m Hok Hst Hnd) as (m' & Hm & _ & Hp & _). exists m'. split; [exact Hm|exact Hp].
Qed.
Print Assumptions C14_marshal_set.

(* UnsetSubfields(path), any depth: the subfield and everything below it is discarded, nothing else is touched *)
Theorem C14_unset_path :
  (forall path s st st', path <> [] -> comp_unset_path s st path = (st', Ok tt) -> set_at st' path = false) /\
  (forall path s st st' sp, path <> [] -> comp_unset_path s st path = (st', Ok tt) -> set_at st path = true ->
     spec_at s path = Some sp -> state_at st path <> None ->
     state_at st' path = Some (fresh sp) /\ forall q, q <> [] -> set_at (fresh sp) q = false) /\
  (forall path s st st' o, comp_unset_path s st path = (st', o) -> forall q, is_prefix path q = false -> set_at st' q = set_at st q).
Proof.
  split; [exact unset_path_discards|]. split; [|exact unset_path_frame].
  intros path s st st' sp Hne H Hs Hsp Hst. split; [apply (unset_path_fresh path s st st' sp Hne H Hs Hsp Hst)|]. intros q Hq. apply fresh_nothing_set. exact Hq.
Qed.
Print Assumptions C14_unset_path.

(* UnmarshalJSON: the populated set grows by exactly the keys of the accepted document - of a message, and of a
   composite at any depth (the keys that name a subfield; other keys are accepted only where the specification skips them) *)
Theorem C14_json_set :
  (forall S kvs m m', m_from_json S m kvs = (m', Ok tt) ->
     forall id, zmem id (m_present m') = zmem id (m_present m) || existsb (key_is id) kvs) /\
  (forall pref len mode subs kvs set sts set' sts', map fst sts = map fst subs ->
     json_into (FComp pref len mode subs) (SComp set sts) (JO kvs) = (SComp set' sts', Ok tt) ->
     forall t, bmem t set' = bmem t set || existsb (names_sub subs t) kvs).
Proof. split; [exact from_json_present|exact json_into_comp_present]. Qed.
Print Assumptions C14_json_set.

(* no resurrection, over histories: after ANY sequence of the state-changing operations of the message API (HistoryProofs.hop:
   setters, unset by id and by path, Unpack and Marshal whatever their outcome, accepted JSON documents, Pack, JSON, Bitmap,
   Clone) every data element that is not in the populated set - never written, unset, or dropped by an Unpack - is
   exactly as in a new message: it holds no value and nothing nested, so populating it or a sibling later cannot bring
   anything back. (The one exception is the element at which the last Unpack failed, which keeps the partial value the
   caller may read and is re-created by the next Unpack.) *)
Theorem C14_history_no_resurrection : forall S ops, NoDup (map fst (ms_fields S)) -> (forall i s, In (i, s) (ms_fields S) -> 2 <= i) ->
  hist_ok S (mfresh S) ops ->
  let m := hrun S (mfresh S) ops in
  forall id s, In (id, s) (ms_fields S) -> zmem id (m_present m) = false -> bytes_eqb (itoa id) (m_failed m) = false ->
    zlookup id (m_fields m) = Some (fresh s).
Proof.
  intros S ops Hnd H2 Hok m. apply (history_clean S Hnd H2 ops (mfresh S) (mfresh_clean S Hnd) Hok).
Qed.
Print Assumptions C14_history_no_resurrection.

(* what Unmarshal copies out is a function of the populated set and of the content of the populated elements: two message
   objects that agree on which of the struct's elements are populated, and hold equivalent content in those, fill the struct
   identically - whatever their unpopulated elements hold is never copied out (row: one struct field with its index tag) *)
From Iso Require Import Proofs.CompositeProofs Proofs.MarshalNested.
Theorem C14_unmarshal_reads_set : forall S ma mb (l : list row),
  (forall r, In r l -> rid r <> 1) ->
  (forall r, In r l -> 0 <= rid r -> zmem (rid r) (m_present mb) = zmem (rid r) (m_present ma)) ->
  (forall r, In r l -> 0 <= rid r -> zmem (rid r) (m_present ma) = true ->
     exists s x y, get_spec S (rid r) = Some s /\ get_state ma (rid r) = Some x /\ get_state mb (rid r) = Some y /\ equiv s x y) ->
  m_unmarshal_fields S mb l = m_unmarshal_fields S ma l.
Proof. exact gunmarshal_congr. Qed.
Print Assumptions C14_unmarshal_reads_set.

(* the populated set of nested Marshal. Composite.Marshal of a struct value of the kind C11_nested_roundtrip speaks about
   (vok n) into a new composite leaves, at every depth, exactly the tags of the struct's non-zero tagged fields populated
   (pop_ok: each populated subfield is in turn such an object for the field's value, every other subfield is as in a new
   composite - nothing else becomes populated); Message.Marshal of a struct whose indexed fields name primitive or
   composite data elements adds exactly the ids of its non-zero indexed fields and leaves every other element as it was *)
From Iso Require Import Model.Padding Model.Encoding Model.Prefix Proofs.MarshalProofs Proofs.MarshalNestedSet.
From Coq Require Import Lia.
Theorem C14_nested_marshal_set : forall n s t v, vok n s t v ->
  exists st, marshal_into n s (fresh s) t v = Ok st /\ pop_ok n s t v st.
Proof. exact nested_marshal_set. Qed.
Print Assumptions C14_nested_marshal_set.

Theorem C14_message_marshal_set_nested : forall S (l : list row) m, Forall (grow_ok S m) l -> NoDup (map rid (filter indexed l)) ->
  exists m', m_marshal_fields S m l = (m', Ok tt) /\
    (forall id, zmem id (m_present m') = zmem id (m_present m) || existsb (fun r => live r && (rid r =? id)) l) /\
    (forall id, existsb (fun r => live r && (rid r =? id)) l = false -> get_state m' id = get_state m id).
Proof. exact message_marshal_set_nested. Qed.
Print Assumptions C14_message_marshal_set_nested.

(* the hypotheses are satisfiable (the struct of C11_ex_nested): A and N are populated, the untagged and the zero field are not *)
Definition cn14 : fspec :=
  FComp (PVar PfASCII 2) 99 (CTag {| tg_len := 1; tg_enc := Some EncASCII; tg_pad := PadNone; tg_sort := SortByInt; tg_skip := false; tg_prefunk := None |})
        [([x31], FPrim {| ps_kind := KString; ps_enc := EncASCII; ps_pref := PVar PfASCII 1; ps_len := 5; ps_pad := PadNone; ps_packer := PkDefault |});
         ([x32], FPrim {| ps_kind := KNumeric; ps_enc := EncASCII; ps_pref := PVar PfASCII 1; ps_len := 5; ps_pad := PadNone; ps_packer := PkDefault |});
         ([x33], FPrim {| ps_kind := KString; ps_enc := EncASCII; ps_pref := PVar PfASCII 1; ps_len := 5; ps_pad := PadNone; ps_packer := PkDefault |})].
Definition tn14 : gty := TPtr (TStruct [(GDecl [x31] [] [x41], TStr); (GDecl [x32] [] [x4e], TInt64); (GDecl [] [] [x53], TStr); (GDecl [x33] [] [x5a], TStr)]).
Definition vn14 : gval := VPtr (Some (VStruct [VStr [x61; x62]; VInt64 7; VStr [x78]; VStr []])).
Example C14_ex_nested_set : (vok 2 cn14 tn14 vn14) /\
  (exists pset sts, marshal_into 2 cn14 (fresh cn14) tn14 vn14 = Ok (SComp pset sts) /\ pop_ok 2 cn14 tn14 vn14 (SComp pset sts) /\
     bmem [x31] pset = true /\ bmem [x32] pset = true /\ bmem [x33] pset = false).
Proof.
  assert (Hv : vok 2 cn14 tn14 vn14).
  { cbn [vok cn14]. split; [repeat constructor; cbn; intuition discriminate|]. eexists _, _. split; [reflexivity|]. split; [reflexivity|]. split; [reflexivity|].
    split; [vm_compute; repeat constructor; cbn; intuition discriminate|]. cbn [zip_decls].
    apply Forall_cons; [|apply Forall_cons; [|apply Forall_cons; [|apply Forall_cons; [|apply Forall_nil]]]].
    - right. split; [reflexivity|]. eexists. split; [reflexivity|]. right. split; [reflexivity|]. eexists. apply c_s_str. discriminate.
    - right. split; [reflexivity|]. eexists. split; [reflexivity|]. right. split; [reflexivity|]. eexists. apply c_n_int64. unfold max_int. lia.
    - left. reflexivity.
    - right. split; [reflexivity|]. eexists. split; [reflexivity|]. left. split; reflexivity. }
  split; [exact Hv|]. destruct (nested_marshal_set 2 cn14 tn14 vn14 Hv) as (st & Hm & Hp).
  assert (E : marshal_into 2 cn14 (fresh cn14) tn14 vn14 = marshal_into 2 cn14 (fresh cn14) tn14 vn14) by reflexivity.
  rewrite Hm in E at 1. vm_compute in E. inversion E; subst st. eexists _, _. split; [reflexivity|]. split; [exact Hp|]. vm_compute. repeat split.
Qed.
