(* C06 Length prefixes: encode/decode are inverse, exact-width and bounded.
   Model: Model/Prefix.v; proofs: Proofs/PrefixProofs.v; registry: Gen/Prefixers.v (regenerated from /repo). *)
From Coq Require Import Strings.String.
From Iso Require Import Model.Base Model.Encoding Model.Prefix Model.Sexp Model.Terms Gen.Prefixers
     Proofs.BaseLemmas Proofs.DigitsProofs Proofs.PrefixProofs.
Open Scope list_scope.

(* For every prefixer and every length n >= 0 (a Go int), a successful EncodeLength returns a prefix of
   exactly the prefixer's width in its documented alphabet which DecodeLength maps back to n, consuming
   exactly those bytes even when more data follows. *)
Theorem C06_roundtrip : forall p max n w, wf_pref p -> go_len n -> enc_len p max n = Ok w ->
  (p <> PBerTLV -> zlen w = pref_width p) /\ pref_alphabet p w = true /\
  forall rest, dec_len p max (w ++ rest) = Ok (n, zlen w).
Proof. exact pref_roundtrip. Qed.
Print Assumptions C06_roundtrip.

(* EncodeLength fails exactly when n exceeds the field maximum or does not fit the digit count (fixed
   prefixers: when n differs from the configured length); otherwise it succeeds (never panics) *)
Theorem C06_enc_fails_iff : forall p max n, wf_pref p -> go_len n ->
  is_ok (enc_len p max n) = negb (enc_must_fail p max n) /\ is_err (enc_len p max n) = enc_must_fail p max n.
Proof. exact pref_enc_fails_iff. Qed.
Print Assumptions C06_enc_fails_iff.

(* DecodeLength never returns a negative length or one above the maximum, reads within the data and
   exactly the prefixer's width *)
Theorem C06_dec_bounded : forall p max d n r, 0 <= max -> dec_len p max d = Ok (n, r) ->
  0 <= n /\ (pref_bounded p max = true -> n <= max) /\ 0 <= r <= zlen d /\ (p <> PBerTLV -> r = pref_width p).
Proof. exact pref_dec_bounded. Qed.
Print Assumptions C06_dec_bounded.

(* ... and fails on prefixes that are too short ... *)
Theorem C06_dec_rejects_short : forall p max d, p <> PBerTLV -> zlen d < pref_width p -> is_err (dec_len p max d) = true.
Proof. exact pref_dec_rejects_short. Qed.
Print Assumptions C06_dec_rejects_short.

Theorem C06_dec_rejects_short_ber : forall max d,
  (d = [] \/ exists b t, d = b :: t /\ 128 <= bz b /\ zlen t < bz b - 128) -> is_err (dec_len PBerTLV max d) = true.
Proof. exact pref_dec_rejects_short_ber. Qed.
Print Assumptions C06_dec_rejects_short_ber.

(* ... or not a number in the prefixer's alphabet *)
Theorem C06_dec_rejects_non_numeral : forall p max d,
  pref_numeral p (ztake (pref_width p) d) = false -> is_ok (dec_len p max d) = false.
Proof.
  intros p max d H. destruct (dec_len p max d) as [[n r]| | |] eqn:E; try reflexivity.
  apply pref_dec_numeral in E. congruence.
Qed.
Print Assumptions C06_dec_rejects_non_numeral.

(* the registry of exported prefixers, regenerated from the live library on every run, is exactly the
   43 prefixers of the property (+ None.Fixed); every name parses to a well-formed model prefixer and the
   object describes itself by that name *)
Definition registry_ok : bool :=
  forallb (fun '(name, inspect) =>
             String.eqb name inspect &&
             match parse_prefixer_name (list_byte_of_string name) with
             | Some (PVar _ d) => (1 <=? d)%nat && (d <=? 6)%nat
             | Some _ => true
             | None => false
             end) prefixer_registry.
Theorem C06_registry : registry_ok = true /\ length prefixer_registry = 44%nat.
Proof. split; vm_compute; reflexivity. Qed.
Print Assumptions C06_registry.

(* non-vacuity *)
Example C06_ex1 : enc_len (PVar PfASCII 3) 999 42 = Ok [x30; x34; x32] /\ dec_len (PVar PfASCII 3) 999 [x30; x34; x32; x41] = Ok (42, 3).
Proof. split; vm_compute; reflexivity. Qed.
Example C06_ex2 : enc_len (PVar PfBinary 5) 1000 300 = Ok [x00; x00; x00; x01; x2c] /\ dec_len (PVar PfBinary 5) 1000 [x00; x00; x00; x01; x2c] = Ok (300, 5).
Proof. split; vm_compute; reflexivity. Qed.
Example C06_ex3 : enc_len PBerTLV 0 0 = Ok [x00] /\ enc_len PBerTLV 0 300 = Ok [x82; x01; x2c] /\ is_err (dec_len PBerTLV 0 [x88; xff; xff; xff; xff; xff; xff; xff; xff]) = true.
Proof. repeat split; vm_compute; reflexivity. Qed.
Example C06_ex4 : is_err (dec_len (PVar PfEBCDIC 2) 99 [x60; xf5]) = true /\ go_len 300 /\ wf_pref (PVar PfHex 2).
Proof. split; [vm_compute; reflexivity|]. split; [unfold go_len, max_int; lia | cbn; lia]. Qed.
