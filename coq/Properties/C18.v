(* C18 Sensitive field contents do not leak through errors or Describe.
   (1) Catalogue theorem over Gen/ErrorSites.v, regenerated from the sources on every run (go/ast): outside the spec
   import/export code (which handles spec documents, not message contents) every error message is built from
   integers, type names, field ids / tags, spec descriptions, constants and wrapped errors only - except for a closed
   list of sites whose value-derived part is provably shorter than 8 bytes - or is hidden behind a SafeError; and every
   place where an error that quotes its input (strconv, encoding/hex, ...) is produced either hides it behind a
   SafeError or feeds it at most 7 value bytes (digit-count bounded prefixes, single characters, ids).
   (2) The masking filters of Describe: the printed value is the first/last 4 (2 for the PIN block) characters
   around "****" and never contains the complete value.
   The numbers are the library's: Gen/Filters.v is regenerated (go/ast) from field_filter.go on every run and
   C18_filter_table ties the model's mask widths, pattern, the way each filter uses its constants and the table of
   default filters to it.
   The translator's argument classification is syntactic and trusted; it is cross-checked dynamically: the oracle
   induces failures with high-entropy 12-19 character secrets over every kind, encoding and operation and greps
   every error text and every Describe output of the real library for them. The track filters are modelled
   (Model/Track.v), compared with the library by the trk topic, and for Track2 proved to show the track with the PAN
   masked (C18_track2_filter), and likewise for Track1 and Track3 (C18_track1_filter, C18_track3_filter: every
   packable well-formed track shows its rendering with the PAN masked and nothing else changed). A track the field
   cannot parse again is shown by its first and last four characters (repair of F31; the fall-back branch of t_filter);
   C18_track_filter_total: every output of a track filter is the rendering of a track whose PAN went through the PAN
   filter, or the PAN filter applied to the whole text - never the raw text; the same for String fields that carry track data
   (C18_string_track_filter, C18_string_track_filter_total; the sfilter operation of the trk topic ties the model). *)
From Coq Require Import List Bool Strings.String.
Import ListNotations.
From Iso Require Import Model.Base Model.Describe Proofs.DescribeProofs Gen.ErrorSites Gen.Filters.
Open Scope string_scope.
Open Scope nat_scope.
Open Scope list_scope.

Definition in_specs (id : string) : bool := String.prefix "specs/" id.

(* sites that format a value-derived string, with the reason it cannot be a complete field of >= 8 characters *)
Definition bounded_value_sites : list (string * nat) :=
  [ ("field/composite.go:Composite.packByTag#2", 0)              (* the encoded subfield tag, not field content *)
  ; ("prefix/ebcdic1047.go:ebcdic1047Prefixer.DecodeLength#2", 6) (* at most Digits <= 6 decoded prefix characters *)
  ].

Definition site_ok (s : err_site) : bool :=
  in_specs (es_id s) || es_hidden s ||
  negb (existsb (fun a => String.eqb (fst a) "value") (es_args s)) ||
  existsb (fun b => String.eqb (fst b) (es_id s) && Nat.ltb (snd b) 8) bounded_value_sites.

(* unprotected quoting errors and the largest number of value bytes their text can show *)
Definition bounded_flows : list (string * string * nat) :=
  [ ("message.go:Message.UnsetFields", "strconv.Atoi", 0)                       (* a path component (field id) *)
  ; ("field/binary.go:Binary.Marshal", "hex.DecodeString", 1)                   (* hex errors show one character *)
  ; ("field/bitmap.go:Bitmap.UnmarshalJSON", "strconv.Unquote", 0)              (* 'invalid syntax', no input quoted *)
  ; ("field/bitmap.go:Bitmap.UnmarshalJSON", "hex.DecodeString", 1)
  ; ("field/composite.go:Composite.packByBitmap", "strconv.Atoi", 0)            (* a subfield id *)
  ; ("field/hex.go:Hex.Bytes", "hex.DecodeString", 1)
  ; ("field/spec.go:Spec.Validate", "strconv.Atoi", 0)                          (* a spec key *)
  ; ("prefix/ascii.go:asciiVarPrefixer.DecodeLength", "strconv.Atoi", 6)        (* Digits <= 6 prefix characters *)
  ; ("prefix/bcd.go:bcdVarPrefixer.DecodeLength", "strconv.Atoi", 6)
  ; ("prefix/ebcdic.go:ebcdicVarPrefixer.DecodeLength", "strconv.Atoi", 6)
  ; ("network/ascii_4bytes_header.go:ASCII4BytesHeader.ReadFrom", "strconv.Atoi", 4)
  ; ("network/bcd_2bytes.go:BCD2BytesHeader.ReadFrom", "strconv.Atoi", 4)
  ].

Definition flow_ok (f : quote_flow) : bool :=
  in_specs (qf_where f) || qf_protected f ||
  existsb (fun b => String.eqb (fst (fst b)) (qf_where f) && String.eqb (snd (fst b)) (qf_callee f) && Nat.ltb (snd b) 8) bounded_flows.

Theorem C18_catalog : forallb site_ok error_sites = true /\ forallb flow_ok quote_flows = true.
Proof. split; vm_compute; reflexivity. Qed.
Print Assumptions C18_catalog.

(* Describe: the PAN (field 2, 20) and the PIN block (field 52) are shown as first/last characters around "****";
   the full value is not a substring of what is printed *)
Theorem C18_describe_pan : forall v, (8 <= List.length v)%nat -> ~ In x2a v ->
  pan_filter v = firstn 4 v ++ stars ++ skipn (List.length v - 4) v /\ occurs v (pan_filter v) = false.
Proof. intros v Hl Hs. apply (mask_hides 4 v); auto; lia. Qed.
Print Assumptions C18_describe_pan.

Theorem C18_describe_pin : forall v, (4 <= List.length v)%nat -> ~ In x2a v ->
  pin_filter v = firstn 2 v ++ stars ++ skipn (List.length v - 2) v /\ occurs v (pin_filter v) = false.
Proof. intros v Hl Hs. apply (mask_hides 2 v); auto; lia. Qed.
Print Assumptions C18_describe_pin.

Example C18_ex : pan_filter [x34; x32; x34; x32; x34; x32; x34; x32; x34; x32; x34; x32; x34; x32; x34; x32] =
  [x34; x32; x34; x32; x2a; x2a; x2a; x2a; x34; x32; x34; x32].
Proof. vm_compute; reflexivity. Qed.

(* the model's masking filters use the library's constants: first / last index 4 (PAN), 2 (PIN), pattern "****"; each
   filter mentions its constants in the order  len < first+last ... in[0:first] + pattern + in[len-last:];  and the
   default table routes 2 and 20 to the PAN filter, 35 / 36 / 45 to the track filters, 52 to the PIN filter *)
Definition lookz (k : string) (l : list (string * Z)) : Z := match find (fun kv => String.eqb (fst kv) k) l with Some kv => snd kv | None => (-1)%Z end.
Definition looks (k : string) (l : list (string * string)) : string := match find (fun kv => String.eqb (fst kv) k) l with Some kv => snd kv | None => "" end.
Theorem C18_filter_table :
  (forall v, pan_filter v = mask (Z.to_nat (lookz "panFistIndex" filter_ints)) v) /\ lookz "panLastIndex" filter_ints = lookz "panFistIndex" filter_ints /\
  (forall v, pin_filter v = mask (Z.to_nat (lookz "pinFirstIndex" filter_ints)) v) /\ lookz "pinLastIndex" filter_ints = lookz "pinFirstIndex" filter_ints /\
  list_byte_of_string (looks "panPattern" filter_patterns) = stars /\ list_byte_of_string (looks "pinPattern" filter_patterns) = stars /\
  filter_uses = [("EMVFilter", ["emvFirstIndex"; "emvLastIndex"; "emvFirstIndex"; "emvPattern"; "emvLastIndex"]);
                 ("PANFilter", ["panFistIndex"; "panLastIndex"; "panFistIndex"; "panPattern"; "panLastIndex"]);
                 ("PINFilter", ["pinFirstIndex"; "pinLastIndex"; "pinFirstIndex"; "pinPattern"; "pinLastIndex"])] /\
  default_filters = [("2", "PANFilter"); ("20", "PANFilter"); ("35", "Track2Filter"); ("36", "Track3Filter"); ("45", "Track1Filter"); ("52", "PINFilter"); ("55", "EMVFilter")].
Proof. repeat split; reflexivity. Qed.
Print Assumptions C18_filter_table.

(* ---- track filters ---- *)
Close Scope string_scope.
Close Scope nat_scope.
Open Scope Z_scope.
Open Scope list_scope.
From Iso Require Import Model.Base Model.Padding Model.Encoding Model.Prefix Model.Bitmap Model.Spec Model.Field Model.Describe Model.Track
     Proofs.BaseLemmas Proofs.EncodingProofs Proofs.FieldProofs Proofs.TrackProofs.


Theorem C18_track2_filter : forall p t b inp, coherent_pspec p -> t2_dom t ->
  pad_ok (ps_pad p) (t_render T2 t) = true -> enc_dom (ps_enc p) (pad (ps_pad p) (t_render T2 t) (ps_len p)) = true ->
  zlen (pad (ps_pad p) (t_render T2 t) (ps_len p)) <= max_int ->
  t_pack T2 p t = Ok b ->
  t_filter T2 p inp t = pan_filter (tk_pan t) ++ tk_sep t ++ (match tk_exp t with Some e => e | None => caret end) ++ tk_svc t ++ tk_dd t.
Proof. exact track2_filter_masks. Qed.
Print Assumptions C18_track2_filter.

Theorem C18_track1_filter : forall p t b inp, coherent_pspec p -> t1_dom t ->
  pad_ok (ps_pad p) (t_render T1 t) = true -> enc_dom (ps_enc p) (pad (ps_pad p) (t_render T1 t) (ps_len p)) = true ->
  zlen (pad (ps_pad p) (t_render T1 t) (ps_len p)) <= max_int ->
  t_pack T1 p t = Ok b ->
  t_filter T1 p inp t = tk_fc t ++ pan_filter (tk_pan t) ++ caret ++ tk_name t ++ caret ++
                        (match tk_exp t with Some e => e | None => caret end) ++ (match tk_svc t with [] => caret | s => s end) ++ tk_dd t.
Proof. exact track1_filter_masks. Qed.
Print Assumptions C18_track1_filter.

Theorem C18_track3_filter : forall p t b inp, coherent_pspec p -> t3_dom t ->
  pad_ok (ps_pad p) (t_render T3 t) = true -> enc_dom (ps_enc p) (pad (ps_pad p) (t_render T3 t) (ps_len p)) = true ->
  zlen (pad (ps_pad p) (t_render T3 t) (ps_len p)) <= max_int ->
  t_pack T3 p t = Ok b ->
  t_filter T3 p inp t = tk_fc t ++ pan_filter (tk_pan t) ++ eqsign ++ tk_dd t.
Proof. exact track3_filter_masks. Qed.
Print Assumptions C18_track3_filter.

(* every output of a track filter, whatever the field holds and whatever text it was given: either the rendering of a
   track whose PAN component went through the PAN filter, or - when the packed track cannot be parsed again - the PAN
   filter applied to the whole text (first and last four characters; the repair of F31). The raw text is never printed. *)
Definition mask_pan (tr : tstate) : tstate :=
  {| tk_fixed := tk_fixed tr; tk_fc := tk_fc tr; tk_pan := pan_filter (tk_pan tr); tk_sep := tk_sep tr;
     tk_name := tk_name tr; tk_exp := tk_exp tr; tk_svc := tk_svc tr; tk_dd := tk_dd tr |}.
Theorem C18_track_filter_total : forall k p inp t,
  (exists tr, t_filter k p inp t = t_render k (mask_pan tr)) \/ t_filter k p inp t = pan_filter inp.
Proof.
  intros k p inp t. unfold t_filter. destruct (t_pack k p t) as [raw|e|q|]; try (left; exists t_empty; reflexivity).
  destruct (t_unpack k p t_empty raw) as [tr [n|e|q|]]; try (right; reflexivity). left. exists tr. reflexivity.
Qed.
Print Assumptions C18_track_filter_total.

(* String fields that carry track data (fields 35 / 36 / 45 of the shipped specifications are String fields with the track
   filters): a String field holding the rendering of a track is shown exactly as a track field holding that track, so the
   three masking theorems above apply to it; and whatever text it holds, the output is the rendering of a track whose
   PAN went through the PAN filter or the PAN filter applied to the whole text *)
From Iso Require Import Proofs.StringTrack.
Theorem C18_string_track_filter : forall k p inp t, s_track_filter k p inp (t_render k t) = t_filter k p inp t.
Proof. exact string_track_filter. Qed.
Print Assumptions C18_string_track_filter.
Theorem C18_string_track_filter_total : forall k p inp v,
  (exists tr, s_track_filter k p inp v = t_render k (mask_pan tr)) \/ s_track_filter k p inp v = pan_filter inp.
Proof. exact string_track_filter_total. Qed.
Print Assumptions C18_string_track_filter_total.

(* the premises are satisfiable: 4111111111111111=2512101123456 under ASCII / LL 37 *)
Definition p35 : pspec := {| ps_kind := KString; ps_enc := EncASCII; ps_pref := PVar PfASCII 2; ps_len := 37; ps_pad := PadNone; ps_packer := PkDefault |}.
Definition t35 : tstate := {| tk_fixed := false; tk_fc := []; tk_pan := [x34; x31; x31; x31; x31; x31; x31; x31; x31; x31; x31; x31; x31; x31; x31; x31];
  tk_sep := [x3d]; tk_name := []; tk_exp := Some [x32; x35; x31; x32]; tk_svc := [x31; x30; x31]; tk_dd := [x31; x32; x33; x34; x35; x36] |}.
Example C18_ex_track2 : t2_dom t35 /\ t_filter T2 p35 [] t35 =
  [x34; x31; x31; x31; x2a; x2a; x2a; x2a; x31; x31; x31; x31; x3d; x32; x35; x31; x32; x31; x30; x31; x31; x32; x33; x34; x35; x36].
Proof.
  split; [|vm_compute; reflexivity]. unfold t2_dom, t35. cbn [tk_pan tk_sep tk_exp tk_svc tk_dd tk_fc tk_name].
  split; [reflexivity|]. split; [cbn; lia|]. split; [left; reflexivity|]. split; [eexists; repeat split; reflexivity|].
  split; [split; reflexivity|]. split; [|split; reflexivity]. split; [discriminate|]. split; [reflexivity|]. split; reflexivity.
Qed.

(* field 35 as a String field: the text 4111111111111111=2512101123456 is shown with the PAN masked *)
Example C18_ex_string_track :
  let v := [x34; x31; x31; x31; x31; x31; x31; x31; x31; x31; x31; x31; x31; x31; x31; x31; x3d; x32; x35; x31; x32; x31; x30; x31; x31; x32; x33; x34; x35; x36] in
  t_render T2 t35 = v /\
  s_track_filter T2 p35 v v = [x34; x31; x31; x31; x2a; x2a; x2a; x2a; x31; x31; x31; x31; x3d; x32; x35; x31; x32; x31; x30; x31; x31; x32; x33; x34; x35; x36].
Proof. split; vm_compute; reflexivity. Qed.
