(* C05 Bitmap bits, continuation bits and message body always agree.
   Bitmap unit level: Model/Bitmap.v, proofs in Proofs/BitmapProofs.v. The message-level clauses
   (bits set = elements present; an unrepresentable element makes Pack fail) are stated over the
   message model in the second half of this file. *)
From Iso Require Import Model.Base Model.Encoding Model.Prefix Model.Bitmap Model.Sexp Model.Terms Proofs.BaseLemmas Proofs.BitmapProofs.

(* setting bit n inside the current size makes exactly bit n read back as set (every mode, every block size) *)
Theorem C05_set_get : forall s data n, 1 <= n <= zlen data * 8 ->
  exists d, bm_set s data n = Ok d /\ zlen d = zlen data /\ forall m, bm_isset d m = (m =? n) || bm_isset data m.
Proof. exact bm_set_inside. Qed.
Print Assumptions C05_set_get.

(* auto-expansion grows the bitmap to the minimal number of blocks ((n-1)/(8B) + 1), sets bit n, sets the
   first bit of every block from the previously last one up to the one before the new last, and changes
   nothing else *)
Theorem C05_expand_min : forall s data n k, bm_auto s = true -> 1 <= bm_len s -> 1 <= k -> zlen data = k * bm_len s ->
  zlen data * 8 < n ->
  let idx := (n - 1) / (bm_len s * 8) in
  exists d, bm_set s data n = Ok d /\ zlen d = (idx + 1) * bm_len s /\
            forall m, bm_isset d m = (m =? n) || ((1 <=? m) && is_cont (bm_len s) k idx m) || bm_isset data m.
Proof. exact bm_set_expand. Qed.
Print Assumptions C05_expand_min.

(* with expansion disabled an index beyond the bitmap changes nothing *)
Theorem C05_fixed_noop : forall s data n, bm_auto s = false -> zlen data * 8 < n -> bm_set s data n = Ok data.
Proof. exact bm_set_fixed_noop. Qed.
Print Assumptions C05_fixed_noop.

(* unpacking consumes exactly the chain of blocks announced by continuation bits (exactly one block when
   expansion is disabled), in binary and hex encodings, whatever follows *)
Theorem C05_unpack_chain : forall s f blocks ws rest data0, 1 <= bm_len s -> (bm_enc s = EncBinary \/ bm_enc s = EncHex) ->
  bm_pref s = PFixed f ->
  Forall2 (fun b w => enc_encode (bm_enc s) b = Ok w) blocks ws ->
  Forall (fun b => zlen b = bm_len s) blocks -> chain_ok (bm_auto s) blocks = true ->
  bm_unpack s data0 (concat ws ++ rest) = (concat blocks, Ok (zlen (concat ws))).
Proof. exact bm_unpack_chain. Qed.
Print Assumptions C05_unpack_chain.

(* the unpack loop terminates within its fuel for every input: each iteration consumes at least a byte *)
Theorem C05_unpack_terminates : forall s minLen, 1 <= minLen -> bm_enc s <> EncBerTag ->
  forall fuel rest read acc, (length rest < fuel)%nat -> snd (bm_unpack_loop fuel s minLen rest read acc) <> OutOfFuel.
Proof. exact bm_unpack_loop_progress. Qed.
Print Assumptions C05_unpack_terminates.

Definition ex_spec : bmspec := {| bm_len := 2; bm_auto := true; bm_enc := EncBinary; bm_pref := PFixed PfBinary |}.
Example C05_ex1 : bm_set ex_spec (bm_new ex_spec) 20 = Ok [x80; x00; x10; x00] /\ wf_bm ex_spec (bm_new ex_spec).
Proof. split; [vm_compute; reflexivity|]. apply wf_new. cbn. lia. Qed.
Example C05_ex2 : bm_unpack ex_spec [] [x80; x01; x00; x02; xff] = ([x80; x01; x00; x02], Ok 4) /\
                  chain_ok true [[x80; x01]; [x00; x02]] = true.
Proof. split; vm_compute; reflexivity. Qed.
Example C05_ex3 : is_cont 2 1 2 1 = true /\ is_cont 2 1 2 17 = true /\ is_cont 2 1 2 33 = false.
Proof. repeat split; vm_compute; reflexivity. Qed.

(* ---- message level: in every packed message the bits set, continuation bits aside, are exactly the data
   elements present (auto-expanding bitmaps; for fixed bitmaps Pack fails on an unrepresentable element:
   set_bits checks IsSet after Set - Model/Message.v, the repair of F11) ---- *)
From Iso Require Import Model.Spec Model.Field Model.Message Proofs.StateProofs.
Theorem C05_msg_agree : forall S m m' b, bm_auto (ms_bm S) = true -> 1 <= bm_len (ms_bm S) ->
  m_pack S m = (m', Ok b) ->
  forall i, 2 <= i -> bm_is_presence_bit (ms_bm S) i = false -> bm_isset (m_bm m') i = zmem i (m_present m).
Proof. exact m_pack_bitmap_agrees. Qed.
Print Assumptions C05_msg_agree.

(* a data element beyond a fixed bitmap makes Pack fail instead of being emitted unannounced *)
Theorem C05_unrepresentable_fixed : forall b id rest bm, bm_auto b = false -> 2 <= id -> zlen bm * 8 < id ->
  exists bm' e, set_bits b (id :: rest) bm = (bm', Err e).
Proof.
  intros b id rest bm Ha Hid Hout. cbn [set_bits]. unfold bm_is_presence_bit. rewrite Ha. cbn [negb orb].
  replace (id <? 2) with false by lia. rewrite (bm_set_fixed_noop b bm id Ha Hout).
  rewrite isset_out by lia. cbn [negb]. eexists _, _. reflexivity.
Qed.
Print Assumptions C05_unrepresentable_fixed.

(* F25 (recorded finding): under an auto-expanding bitmap an element on a continuation position is skipped silently *)
Theorem C05_unrepresentable_refuted : exists b id bm, bm_auto b = true /\ bm_is_presence_bit b id = true /\
  set_bits b [id] bm = (bm, Ok tt).
Proof. exists ex_spec, 17, (bm_new ex_spec). repeat split; vm_compute; reflexivity. Qed.
Print Assumptions C05_unrepresentable_refuted.

(* the default block (field/bitmap.go NewBitmap / Reset): a specification written with Length 0 is a bitmap of 8-byte
   blocks, any other length is itself - so every bitmap specification the case language can name with a non-negative
   length meets the hypothesis 1 <= bm_len of the theorems above, and the capacity a fixed bitmap is checked against
   (C05_unrepresentable_fixed) is 8 * 8 bits for the default, not 0 (seeded change C05-i) *)
Theorem C05_default_block : forall b a e p s z, Terms.parse_bmspec_args [b; a; e; p] = Some s -> Sexp.as_int b = Some z ->
  bm_len s = (if z =? 0 then 8 else z) /\ (0 <= z -> 1 <= bm_len s).
Proof.
  intros b a e p s z H Hz. cbn [Terms.parse_bmspec_args] in H. rewrite Hz in H.
  destruct (Sexp.as_bool a); [|discriminate]. destruct (Terms.parse_encoder e); [|discriminate]. destruct (Terms.parse_prefixer p); [|discriminate].
  inversion H; subst s; cbn [bm_len]. split; [reflexivity|]. intros Hz0. destruct (z =? 0) eqn:E; lia.
Qed.
Print Assumptions C05_default_block.
