(* C01 Pack then Unpack reproduces the message.
   Proved here: the full statement for every primitive field (any kind x encoding x the 43 prefixers x padding,
   any in-domain value, arbitrary trailing bytes, arbitrary prior state of the object, identical re-pack).
   and, by induction over the specification, for every nested field specification whose composites are tagged
   (TLV, any tag encoding that reads back: tag_rt_value, tag_rt_ber), positional, or carry a (fixed) bitmap of
   subfields with canonical decimal ids: C01_field_roundtrip.
   and for whole messages (MTI, bitmap in Binary or Hex - auto-expanding with 1..n blocks, or fixed -, data elements over
   any such field specification): C01_message_roundtrip, C01_message_repack.
   Track2 fields: C01_track2_roundtrip; Track3, Track1: C01_track3_parse_render, C01_track1_parse_render (parsing the rendered track returns the components;
   the field-level packer / unpacker around it is the one of raw_roundtrip). Tracks are modelled (Model/Track.v), tied to the library by
   correspondence and exercised by the property oracle, without a theorem. *)
From Iso Require Import Model.Base Model.Padding Model.Encoding Model.Prefix Model.Bitmap Model.Spec Model.Field Model.Message
     Proofs.BaseLemmas Proofs.PrefixProofs Proofs.FieldProofs Proofs.CompositeProofs Proofs.MessageRoundtrip Proofs.CoherenceCheck Gen.ShippedSpecs.
From Iso Require Import Model.Describe Model.Track Proofs.EncodingProofs Proofs.TrackProofs.

Theorem C01_prim_roundtrip : forall p st b, coherent_pspec p -> prim_in_domain p st -> prim_pack p st = Ok b ->
  forall st0 rest, prim_unpack p st0 (b ++ rest) = (st, UOk (zlen b)).
Proof. exact prim_roundtrip. Qed.
Print Assumptions C01_prim_roundtrip.

(* packing the unpacked field returns the identical bytes *)
Theorem C01_prim_repack : forall p st b, coherent_pspec p -> prim_in_domain p st -> prim_pack p st = Ok b ->
  forall st0 rest, prim_pack p (fst (prim_unpack p st0 (b ++ rest))) = Ok b.
Proof. intros p st b Hc Hd Hp st0 rest. rewrite (prim_roundtrip p st b Hc Hd Hp st0 rest). exact Hp. Qed.
Print Assumptions C01_prim_repack.

(* nested field specifications: the same content comes back (equiv: the same subfields are set, with the same
   content, recursively), exactly the packed bytes are consumed whatever follows and whatever the object held before
   (any shaped object, e.g. a fresh one or one that was used), and packing the result returns the identical bytes *)
Theorem C01_field_roundtrip : forall s, coherent s -> forall st b, in_dom s st -> pack_f s st = Ok b ->
  forall st0 rest, shaped s st0 ->
    exists st', unpack_f s st0 (b ++ rest) = (st', UOk (zlen b)) /\ equiv s st st' /\ pack_f s st' = Ok b /\ shaped s st'.
Proof. exact field_roundtrip. Qed.
Print Assumptions C01_field_roundtrip.

Theorem C01_fresh_shaped : forall s, coherent s -> shaped s (fresh s).
Proof. exact fresh_shaped. Qed.
Print Assumptions C01_fresh_shaped.

(* whole messages: unpacking the packed bytes into any message object of the specification (fresh or used) succeeds,
   consumes exactly the packed bytes whatever follows, and yields the same MTI, the same bitmap, the same set of
   populated ids and, recursively, the same content for every data element, each of which re-packs identically *)
Theorem C01_message_roundtrip : forall S m m' b, msg_coherent S -> msg_in_dom S m -> m_pack S m = (m', Ok b) ->
  forall m0 rest, msg_shaped S m0 ->
    exists m2, m_unpack S m0 (b ++ rest) = (m2, UOk (zlen b)) /\ msg_equiv S m' m2.
Proof. exact message_roundtrip. Qed.
Print Assumptions C01_message_roundtrip.

(* ... and packing the unpacked message returns the identical bytes *)
Theorem C01_message_repack : forall S m m' b, msg_coherent S -> msg_in_dom S m -> m_pack S m = (m', Ok b) ->
  forall m0 rest, msg_shaped S m0 -> snd (m_pack S (fst (m_unpack S m0 (b ++ rest)))) = Ok b.
Proof. exact message_repack. Qed.
Print Assumptions C01_message_repack.

(* the shipped specifications (iso8583.Spec87, specs.Spec87ASCII, specs.Spec87Hex, examples.Spec, the EMV composite as
   data element 55), regenerated from the library's spec objects on every run (Gen/ShippedSpecs.v), are coherent: the
   two theorems above apply to every in-domain message of each of them. coherentb is a decision procedure proved
   sound (Proofs/CoherenceCheck.v); the evaluation is over the finite list of shipped specifications. *)
Theorem C01_shipped_specs_coherent : forall name t, In (name, t) shipped_specs -> exists MS, spec_of_string t = Some MS /\ msg_coherent MS.
Proof.
  assert (H : forallb (fun nt : String.string * String.string => match spec_of_string (snd nt) with Some MS => msg_coherentb MS | None => false end) shipped_specs = true)
    by (vm_compute; reflexivity).
  intros name t Hi. rewrite forallb_forall in H. specialize (H (name, t) Hi). cbn [snd] in H.
  destruct (spec_of_string t) as [MS|]; [|discriminate]. exists MS. split; [reflexivity|apply msg_coherentb_sound; exact H].
Qed.
Print Assumptions C01_shipped_specs_coherent.

(* Track2 fields (the model of field/track2.go: rendering, the regular expression as a deterministic matcher, trimming,
   the expiry date check): Pack then Unpack into an object that held anything returns the components and consumes
   exactly the packed bytes; identical re-pack. t2_dom: PAN of 1..19 digits, separator = or D, a valid YYMM, three digits
   of service code, discretionary data without ? and without white space at its ends (C18_ex_track2 is an instance) *)
Theorem C01_track2_roundtrip : forall p t b t0 rest, coherent_pspec p -> t2_dom t ->
  pad_ok (ps_pad p) (t_render T2 t) = true -> enc_dom (ps_enc p) (pad (ps_pad p) (t_render T2 t) (ps_len p)) = true ->
  zlen (pad (ps_pad p) (t_render T2 t) (ps_len p)) <= max_int ->
  t_pack T2 p t = Ok b ->
  let t' := {| tk_fixed := tk_fixed t0; tk_fc := []; tk_pan := tk_pan t; tk_sep := tk_sep t; tk_name := []; tk_exp := tk_exp t; tk_svc := tk_svc t; tk_dd := tk_dd t |} in
  t_unpack T2 p t0 (b ++ rest) = (t', Ok (zlen b)) /\ t_pack T2 p t' = Ok b.
Proof. exact track2_roundtrip. Qed.
Print Assumptions C01_track2_roundtrip.

(* Track3: parsing the rendered track returns the components (t3_dom: two digits of format code, a PAN of 1..19 digits,
   discretionary data without ? , without white space at its ends and other than the single character =) *)
Theorem C01_track3_parse_render : forall t t0, t3_dom t ->
  t_parse T3 t0 (t_render T3 t) =
  ({| tk_fixed := tk_fixed t0; tk_fc := tk_fc t; tk_pan := tk_pan t; tk_sep := []; tk_name := []; tk_exp := None; tk_svc := []; tk_dd := tk_dd t |}, Ok tt).
Proof. exact track3_parse_render. Qed.
Print Assumptions C01_track3_parse_render.

(* Track1 (t1_dom: FixedLength off, one upper-case letter of format code, a PAN of 1..19 digits, a name of 2..26 characters
   without ^ and without white space at its ends, an optional valid YYMM, an optional three-digit service code,
   discretionary data without ? , without white space at its ends and other than the single character ^) *)
Theorem C01_track1_parse_render : forall t t0, t1_dom t ->
  t_parse T1 t0 (t_render T1 t) =
  ({| tk_fixed := tk_fixed t0; tk_fc := tk_fc t; tk_pan := tk_pan t; tk_sep := []; tk_name := tk_name t; tk_exp := tk_exp t; tk_svc := tk_svc t; tk_dd := tk_dd t |}, Ok tt).
Proof. exact track1_parse_render. Qed.
Print Assumptions C01_track1_parse_render.

(* non-vacuity, and instances of the composite / message level by computation *)
Definition p_ex : pspec := {| ps_kind := KString; ps_enc := EncBCD; ps_pref := PVar PfBinary 5; ps_len := 300; ps_pad := PadNone; ps_packer := PkDefault |}.
Example C01_ex_prim : coherent_pspec p_ex /\ prim_pack p_ex (SString [x31; x32; x33]) = Ok [x00; x00; x00; x00; x03; x01; x23].
Proof. split; [repeat split; cbn; try lia; reflexivity | vm_compute; reflexivity]. Qed.

Definition c_ex : fspec :=
  FComp (PVar PfASCII 2) 99 (CTag {| tg_len := 2; tg_enc := Some EncASCII; tg_pad := PadLeft x30; tg_sort := SortByInt; tg_skip := false; tg_prefunk := None |})
        [([x31], FPrim {| ps_kind := KNumeric; ps_enc := EncASCII; ps_pref := PVar PfASCII 2; ps_len := 6; ps_pad := PadNone; ps_packer := PkDefault |});
         ([x32], FPrim {| ps_kind := KBinary; ps_enc := EncHex; ps_pref := PBerTLV; ps_len := 0; ps_pad := PadNone; ps_packer := PkDefault |})].
Example C01_ex_comp :
  let st := SComp [[x32]; [x31]] [([x31], SNumeric 42); ([x32], SBinary [xab])] in
  exists b, pack_f c_ex st = Ok b /\ fst (unpack_f c_ex (fresh c_ex) (b ++ [xff])) = SComp [[x31]; [x32]] [([x31], SNumeric 42); ([x32], SBinary [xab])]
            /\ snd (unpack_f c_ex (fresh c_ex) (b ++ [xff])) = UOk (zlen b).
Proof. eexists. split; [vm_compute; reflexivity|]. split; vm_compute; reflexivity. Qed.

(* the premises of C01_field_roundtrip are satisfiable: the composite above is coherent and the state is in its domain *)
Example C01_ex_coherent : coherent c_ex.
Proof.
  cbn [coherent c_ex]. split; [cbn; lia|]. split; [repeat constructor; cbn; intuition discriminate|]. split.
  - cbn [tg_enc]. intros tag [<-|[<-|[]]]; apply tag_rt_value; try reflexivity; cbn; lia.
  - repeat split; cbn; try lia; reflexivity.
Qed.
Example C01_ex_in_dom : in_dom c_ex (SComp [[x32]; [x31]] [([x31], SNumeric 42); ([x32], SBinary [xab])]).
Proof.
  cbn [in_dom c_ex]. split; [|split; [|split]].
  - intros tag H. apply bmem_In in H. cbn [In map fst] in *. destruct H as [<-|[<-|[]]]; [right; left|left]; reflexivity.
  - intros body H. vm_compute in H. injection H as <-. vm_compute. discriminate.
  - cbn. discriminate.
  - cbn [blookup bytes_eqb Byte.eqb andb]. split; [|split; [|exact I]]; intros _ x Hx; injection Hx as <-; (split; [|cbn; discriminate]).
    + apply prim_in_domain_of_strict. split; [change (0 <= 42 <= max_int); unfold max_int; lia|]. exists (itoa 42). repeat split; vm_compute; congruence.
    + apply prim_in_domain_of_strict. split; [exact I|]. exists [xab]. repeat split; vm_compute; congruence.
Qed.

(* a composite with a bitmap of subfields: coherent, and an instance of the round trip *)
Definition c_bm : fspec :=
  FComp (PVar PfASCII 2) 99 (CBitmap {| bm_len := 1; bm_auto := false; bm_enc := EncBinary; bm_pref := PFixed PfBinary |})
        [([x31], FPrim {| ps_kind := KString; ps_enc := EncASCII; ps_pref := PVar PfASCII 1; ps_len := 5; ps_pad := PadNone; ps_packer := PkDefault |});
         ([x33], FPrim {| ps_kind := KNumeric; ps_enc := EncASCII; ps_pref := PVar PfASCII 1; ps_len := 4; ps_pad := PadNone; ps_packer := PkDefault |})].
Example C01_ex_bm_coherent : coherent c_bm.
Proof.
  cbn [coherent c_bm]. split; [cbn; lia|]. split; [repeat constructor; cbn; intuition discriminate|]. split.
  - cbn [bm_auto bm_len bm_enc bm_pref]. split; [reflexivity|]. split; [lia|]. split; [left; reflexivity|]. split; [eexists; reflexivity|].
    intros tag [<-|[<-|[]]]; [exists 1|exists 3]; (split; [unfold max_int; lia|vm_compute; reflexivity]).
  - repeat split; cbn; try lia; reflexivity.
Qed.
Example C01_ex_bm :
  let st := SComp [[x33]] [([x31], SString []); ([x33], SNumeric 42)] in
  exists b, pack_f c_bm st = Ok b /\ b = [x30; x34; x20; x32; x34; x32] /\
            fst (unpack_f c_bm (fresh c_bm) (b ++ [xff])) = SComp [[x33]] [([x31], SString []); ([x33], SNumeric 42)] /\
            snd (unpack_f c_bm (fresh c_bm) (b ++ [xff])) = UOk (zlen b).
Proof. eexists. split; [vm_compute; reflexivity|]. split; [reflexivity|]. split; vm_compute; reflexivity. Qed.
