(* C01 Pack then Unpack reproduces the message.
   Proved here: the full statement for every primitive field (any kind x encoding x the 43 prefixers x padding,
   any in-domain value, arbitrary trailing bytes, arbitrary prior state of the object, identical re-pack).
   Composite and message levels: the model's recursive pack_f/unpack_f and m_pack/m_unpack are tied to the
   library by correspondence and exercised by the property oracle; their general theorem is stated below as
   C01_field_statement (not yet proved - see DESIGN.md section 9). *)
From Iso Require Import Model.Base Model.Padding Model.Encoding Model.Prefix Model.Bitmap Model.Spec Model.Field Model.Message
     Proofs.BaseLemmas Proofs.PrefixProofs Proofs.FieldProofs.

Theorem C01_prim_roundtrip : forall p st b, coherent_pspec p -> prim_in_domain p st -> prim_pack p st = Ok b ->
  forall st0 rest, prim_unpack p st0 (b ++ rest) = (st, UOk (zlen b)).
Proof. exact prim_roundtrip. Qed.
Print Assumptions C01_prim_roundtrip.

(* packing the unpacked field returns the identical bytes *)
Theorem C01_prim_repack : forall p st b, coherent_pspec p -> prim_in_domain p st -> prim_pack p st = Ok b ->
  forall st0 rest, prim_pack p (fst (prim_unpack p st0 (b ++ rest))) = Ok b.
Proof. intros p st b Hc Hd Hp st0 rest. rewrite (prim_roundtrip p st b Hc Hd Hp st0 rest). exact Hp. Qed.
Print Assumptions C01_prim_repack.

(* the statement for arbitrary (nested) field specs, for the record *)
Definition C01_field_statement : Prop :=
  forall (coherent : fspec -> Prop) (in_domain : fspec -> fstate -> Prop) s st b,
    coherent s -> in_domain s st -> pack_f s st = Ok b ->
    forall st0 rest, exists st', unpack_f s st0 (b ++ rest) = (st', UOk (zlen b)) /\ pack_f s st' = Ok b.

(* non-vacuity, and instances of the composite / message level by computation *)
Definition p_ex : pspec := {| ps_kind := KString; ps_enc := EncBCD; ps_pref := PVar PfBinary 5; ps_len := 300; ps_pad := PadNone; ps_packer := PkDefault |}.
Example C01_ex_prim : coherent_pspec p_ex /\ prim_pack p_ex (SString [x31; x32; x33]) = Ok [x00; x00; x00; x00; x03; x01; x23].
Proof. split; [repeat split; cbn; try lia; reflexivity | vm_compute; reflexivity]. Qed.

Definition c_ex : fspec :=
  FComp (PVar PfASCII 2) 99 (CTag {| tg_len := 2; tg_enc := Some EncASCII; tg_pad := PadLeft x30; tg_sort := SortByInt; tg_skip := false; tg_prefunk := None |})
        [([x31], FPrim {| ps_kind := KNumeric; ps_enc := EncASCII; ps_pref := PVar PfASCII 2; ps_len := 6; ps_pad := PadNone; ps_packer := PkDefault |});
         ([x32], FPrim {| ps_kind := KBinary; ps_enc := EncHex; ps_pref := PBerTLV; ps_len := 0; ps_pad := PadNone; ps_packer := PkDefault |})].
Example C01_ex_comp :
  let st := SComp [[x32]; [x31]] [([x31], SNumeric 42); ([x32], SBinary [xab])] in
  exists b, pack_f c_ex st = Ok b /\ fst (unpack_f c_ex (fresh c_ex) (b ++ [xff])) = SComp [[x31]; [x32]] [([x31], SNumeric 42); ([x32], SBinary [xab])]
            /\ snd (unpack_f c_ex (fresh c_ex) (b ++ [xff])) = UOk (zlen b).
Proof. eexists. split; [vm_compute; reflexivity|]. split; vm_compute; reflexivity. Qed.
