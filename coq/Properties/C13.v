(* C13 Synchronized Message/Composite API is race-free and linearizable.
   Generic theorems about the lock machine of Model/Locks.v (any number of threads, any programs of invocations, any
   schedule): if every method is well locked - it touches guarded state only between mu.Lock() and the deferred
   mu.Unlock() that bracket its whole body, and never calls a locking method of the same receiver while holding the
   mutex - then every access to guarded state is made by the current holder of the mutex (no data race, and the
   accesses of one invocation are never interleaved with another's: invocations take effect one at a time in
   acquisition order, which respects real time), and some thread can always make progress (no deadlock).
   Instance theorem: the lock summary regenerated from message.go and field/composite.go on every run (go/ast) says
   every operation named by the property is well locked and nothing outside the two types touches the guarded fields.
   The Go memory model, the runtime's concurrent-map detection and the scheduler are runtime behaviour (partial): the
   translator's analysis is cross-checked by a -race stress run whose Pack outputs must decode to written values. *)
From Coq Require Import List Bool Strings.String.
Import ListNotations.
From Iso Require Import Model.Locks Proofs.LockProofs Gen.Locks.
Open Scope string_scope.
Open Scope list_scope.

Theorem C13_race_free_atomic : forall progs tr s',
  Forall (Forall (fun cm => well_locked (snd cm) = true)) progs ->
  exec (initial progs) tr s' ->
  forall pre t c post, tr = pre ++ (t, SAcc c) :: post ->
    exists s, exec (initial progs) pre s /\ holder s = Some t.
Proof. intros progs tr s' Hw Hex. apply (race_free progs tr s' Hw Hex). Qed.
Print Assumptions C13_race_free_atomic.

Theorem C13_deadlock_free : forall progs tr s,
  Forall (Forall (fun cm => well_locked (snd cm) = true)) progs ->
  exec (initial progs) tr s ->
  (exists t, t < List.length (threads s) /\ nth_thread s t <> []) ->
  exists t a s', mstep s t a s'.
Proof. exact deadlock_free. Qed.
Print Assumptions C13_deadlock_free.

(* ---- the instance: the generated lock summary ---- *)
Definition shape_of (l : lock_summary) : mshape :=
  {| sh_locks := lm_locks l; sh_accesses := List.length (lm_touches l);
     sh_nested_lock := match lm_calls_locking l with [] => false | _ => true end |}.

Definition api_ok (methods : list lock_summary) (name : string) : bool :=
  match find (fun l => String.eqb (lm_name l) name) methods with
  | Some l => well_locked (shape_of l) && negb (lm_spawns l) && Nat.leb (lm_sections l) 1
  | None => false
  end.

(* the operations the property names *)
Definition message_api : list string :=
  ["MTI"; "Field"; "BinaryField"; "Marshal"; "Unmarshal"; "Pack"; "Unpack"; "MarshalJSON"; "UnmarshalJSON";
   "GetFields"; "Bitmap"; "Clone"; "UnsetField"; "UnsetFields"].
Definition composite_api : list string :=
  ["Marshal"; "Unmarshal"; "Pack"; "Unpack"; "SetBytes"; "Bytes"; "String"; "MarshalJSON"; "UnmarshalJSON";
   "GetSubfields"; "Bitmap"; "UnsetSubfield"; "UnsetSubfields"].

(* no method spawns goroutines touching the state, and every helper that touches guarded state without locking is
   unexported (reachable only from the locked methods above) except the read accessors the property does not list *)
Definition unlisted_unguarded (methods : list lock_summary) (api : list string) : list string :=
  map lm_name (filter (fun l => lm_exported l && negb (well_locked (shape_of l)) && negb (existsb (String.eqb (lm_name l)) api)) methods).

Theorem C13_instance :
  forallb (api_ok message_methods) message_api = true /\
  forallb (api_ok composite_methods) composite_api = true /\
  message_foreign_accesses = [] /\ composite_foreign_accesses = [].
Proof. repeat split; vm_compute; reflexivity. Qed.
Print Assumptions C13_instance.

(* exported methods outside the property's list that read the field map without the lock (reported, not claimed) *)
Example C13_note_unlisted : unlisted_unguarded message_methods message_api = ["GetBytes"; "GetField"; "GetMTI"; "GetString"].
Proof. vm_compute; reflexivity. Qed.

(* non-vacuity: a two-thread program of well-locked methods, and a schedule *)
Definition m_lock : mshape := {| sh_locks := true; sh_accesses := 2; sh_nested_lock := false |}.
Example C13_ex : well_locked m_lock = true /\
  exec (initial [[(0, m_lock)]; [(1, m_lock)]]) [(1, SAcq); (1, SAcc 1); (1, SAcc 1); (1, SRel); (0, SAcq)]
       {| holder := Some 0; threads := [[SAcc 0; SAcc 0; SRel]; []] |}.
Proof.
  split; [reflexivity|].
  repeat (eapply ex_cons; [first [eapply st_acq; reflexivity | eapply st_rel; reflexivity | eapply st_acc; reflexivity]|cbn]).
  apply ex_nil.
Qed.
