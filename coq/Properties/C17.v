(* C17 Spec JSON export/import preserves behaviour.
   Model: Model/SpecJson.v (ExportJSON / ImportJSON on parsed documents, encoding/json's null = zero value rule, the
   composite validation added by the repair of F18); name tables tied to the library by Gen/BuilderTables.v.
   Proved: ImportJSON returns an error or a spec for EVERY document - never a panic (documents nested deeper than 8
   levels exhaust the model's fuel and are excluded); the name tables are mutually inverse on the exportable
   vocabulary (7 encodings, 27 prefixes), padding descriptions import back to the same padder, and the model's tables
   agree with the live maps regenerated from specs/builder.go on every run. The structural round trip: for every field
   specification tree of the expressible vocabulary (expressible, spelled out in Proofs/SpecJsonRoundtrip.v) ImportJSON
   of the exported document is the tree itself (C17_export_import_field, any nesting depth within the fuel), and for
   every message specification the import of the export is exactly the rows of that specification
   (C17_export_import_spec); the rows determine the specification (C17_rows_determine_spec), so the re-imported
   specification IS the exported one: it packs and unpacks identically and exports to the identical document
   (C17_reexport_identical). The shipped specifications (regenerated on every run): each one the format can express - all
   but the EMV composite - exports to a document whose import is the specification itself (C17_shipped_specs). That the library and the model agree on the exported document and on the imported spec is
   the correspondence check (generated and mutated documents) and the oracle (re-imported spec equal, byte-identical
   re-export, identical pack/unpack behaviour). *)
From Coq Require Import Strings.String.
From Iso Require Import Model.Base Model.Padding Model.Encoding Model.Prefix Model.Bitmap Model.Spec Model.MessageOps Model.SpecJson
     Model.Field Proofs.BaseLemmas Proofs.SpecJsonProofs Proofs.SpecJsonRoundtrip Gen.BuilderTables.
Open Scope list_scope.

Theorem C17_import_total : forall d, no_panic (import_spec d).
Proof. exact import_spec_no_panic. Qed.
Print Assumptions C17_import_total.

Theorem C17_import_field_total : forall fuel d, no_panic (import_field fuel d).
Proof. exact import_field_no_panic. Qed.
Print Assumptions C17_import_field_total.

Theorem C17_prefix_names : forall p, In p importable_prefs -> pref_of_name (pref_name p) = Some p.
Proof. exact pref_of_name_roundtrip. Qed.
Print Assumptions C17_prefix_names.

Theorem C17_encoding_names : forall e, In e exportable_encs -> exists n, enc_ext_name e = Some n /\ enc_of_name n = Some e.
Proof. exact enc_of_name_roundtrip. Qed.
Print Assumptions C17_encoding_names.

Theorem C17_padding_roundtrip : forall pad, match pad with PadNone => True | PadLeft c | PadRight c => bz c < 128 end ->
  match export_pad pad with Some d => import_pad d = Ok pad | None => pad = PadNone end.
Proof. exact import_export_pad. Qed.
Print Assumptions C17_padding_roundtrip.

(* the model's name tables are the library's (regenerated on every run) *)
Definition b2s (b : bytes) : string := string_of_list_byte b.
Theorem C17_tables :
  forallb (fun '(ext, insp) => match pref_of_name (list_byte_of_string ext) with
                               | Some p => String.eqb (b2s (pref_name p)) insp | None => false end) prefixes_ext_to_int = true /\
  length prefixes_ext_to_int = 27%nat /\
  forallb (fun '(ext, term) => match enc_of_name (list_byte_of_string ext) with
                               | Some e => String.eqb (b2s (enc_term_name e)) term | None => false end) encodings_ext_to_int = true /\
  length encodings_ext_to_int = 8%nat /\
  (* export: Go type name of the encoder -> external name, as the model's enc_ext_name says *)
  forallb (fun e => match enc_ext_name e with
                    | Some n => existsb (fun '(term, ty) => String.eqb term (b2s (enc_term_name e)) &&
                                           existsb (fun '(ty', ext) => String.eqb ty ty' && String.eqb ext (b2s n)) encodings_int_to_ext) encoder_type_names
                    | None => negb (existsb (fun '(term, ty) => String.eqb term (b2s (enc_term_name e)) &&
                                           existsb (fun '(ty', _) => String.eqb ty ty') encodings_int_to_ext) encoder_type_names)
                    end) [EncASCII; EncBinary; EncBCD; EncLBCD; EncHex; EncHexToBytes; EncEBCDIC; EncEBCDIC1047; EncBerTag] = true /\
  map fst sort_ext_to_int = ["StringsByHex"; "StringsByInt"]%string /\
  map fst field_constructors = ["Binary"; "Bitmap"; "Composite"; "Numeric"; "String"; "Track2"]%string.
Proof. repeat split; vm_compute; reflexivity. Qed.
Print Assumptions C17_tables.

(* a nested spec: export, import, same spec (by computation) *)
Definition s17 : fspec :=
  FComp (PVar PfASCII 3) 999 (CTag {| tg_len := 2; tg_enc := Some EncASCII; tg_pad := PadLeft x30; tg_sort := SortByInt; tg_skip := false; tg_prefunk := None |})
        [([x31], FPrim {| ps_kind := KNumeric; ps_enc := EncBCD; ps_pref := PVar PfBCD 2; ps_len := 6; ps_pad := PadNone; ps_packer := PkDefault |});
         ([x32], FComp (PVar PfBinary 1) 255 (CBitmap {| bm_len := 2; bm_auto := false; bm_enc := EncHex; bm_pref := PFixed PfHex |})
                   [([x33], FPrim {| ps_kind := KString; ps_enc := EncEBCDIC; ps_pref := PFixed PfEBCDIC; ps_len := 4; ps_pad := PadRight x20; ps_packer := PkDefault |})])].
Example C17_ex_roundtrip : exists j, export_field s17 = Ok j /\
  show_sfield (match import_field 8 j with Ok sf => sf | _ => SFBitmap {| bm_len := 0; bm_auto := true; bm_enc := EncASCII; bm_pref := PNone |} end) =
  list_byte_of_string "(C ASCII.LLL 999 (T 2 ASCII L x30 ByInt 0 nil) ((x31 (P Numeric BCD BCD.LL 6 N x00 D)) (x32 (C Binary.L 255 (B 2 Hex Hex.Fixed) ((x33 (P String EBCDIC EBCDIC.Fixed 4 R x20 D)))))))".
Proof. eexists. split; [vm_compute; reflexivity|vm_compute; reflexivity]. Qed.

(* ---- export then import is the identity ---- *)
Theorem C17_export_import_field : forall s, expressible s -> forall d, export_field s = Ok d ->
  forall fuel, (depth s <= fuel)%nat -> import_field fuel d = Ok (embed s).
Proof. intros s Hx d Hd. exact (proj1 (export_import_field s Hx d Hd)). Qed.
Print Assumptions C17_export_import_field.

Theorem C17_export_import_spec : forall S d,
  exportable_pspec (ms_mti S) -> In (bm_enc (ms_bm S)) exportable_encs -> In (bm_pref (ms_bm S)) importable_prefs -> 0 <= bm_len (ms_bm S) < two63 ->
  (forall id s, In (id, s) (ms_fields S) -> 0 <= id <= max_int /\ expressible s /\ (depth s <= 8)%nat) ->
  export_spec S = Ok d -> import_spec d = Ok (spec_rows S).
Proof. exact export_import_spec. Qed.
Print Assumptions C17_export_import_spec.

Theorem C17_rows_determine_spec : forall S S', spec_rows S = spec_rows S' -> S = S'.
Proof. exact spec_rows_inj. Qed.
Print Assumptions C17_rows_determine_spec.

(* whatever specification S' the imported rows are turned back into (spec_rows S' = the rows imported from S's export),
   it is S: same packing, same unpacking, same export *)
Theorem C17_reexport_identical : forall S S' d,
  exportable_pspec (ms_mti S) -> In (bm_enc (ms_bm S)) exportable_encs -> In (bm_pref (ms_bm S)) importable_prefs -> 0 <= bm_len (ms_bm S) < two63 ->
  (forall id s, In (id, s) (ms_fields S) -> 0 <= id <= max_int /\ expressible s /\ (depth s <= 8)%nat) ->
  export_spec S = Ok d -> import_spec d = Ok (spec_rows S') ->
  S' = S /\ export_spec S' = Ok d.
Proof.
  intros S S' d H1 H2 H3 H4 H5 Hd Hi. rewrite (export_import_spec S d H1 H2 H3 H4 H5 Hd) in Hi.
  assert (S = S') by (apply spec_rows_inj; change (spec_rows S) with ((0, (kind_name (ps_kind (ms_mti S)), SFPrim (ms_mti S))) :: (1, (Q "Bitmap", SFBitmap (ms_bm S))) :: imported (ms_fields S)); congruence). subst S'. split; [reflexivity|exact Hd].
Qed.
Print Assumptions C17_reexport_identical.

(* the shipped specifications (Gen/ShippedSpecs.v, regenerated from the library's spec objects on every run): each one
   the JSON format can express - all but the EMV composite, whose BER-TLV tag encoding has no name in the format - is
   exported to a document whose import is the specification itself (evaluated in the kernel on the five specifications) *)
From Iso Require Import Gen.ShippedSpecs Proofs.CoherenceCheck.
Definition shipped_rt (t : String.string) : Prop :=
  match spec_of_string t with
  | Some MS => match export_spec MS with Ok d => import_spec d = Ok (spec_rows MS) | _ => True end
  | None => False
  end.
Definition shipped_exports (t : String.string) : bool :=
  match spec_of_string t with Some MS => is_ok (export_spec MS) | None => false end.
Theorem C17_shipped_specs : forall name t, In (name, t) shipped_specs -> shipped_rt t.
Proof.
  intros name t [H|[H|[H|[H|[H|[]]]]]]; inversion H; subst; vm_compute; try reflexivity; exact I.
Qed.
Print Assumptions C17_shipped_specs.
Theorem C17_shipped_specs_exportable :
  map (fun nt => (fst nt, shipped_exports (snd nt))) shipped_specs =
  [("Spec87", true); ("Spec87ASCII", true); ("Spec87Hex", true); ("examples", true); ("emv", false)]%string.
Proof. vm_compute. reflexivity. Qed.
Print Assumptions C17_shipped_specs_exportable.

(* the hypotheses are satisfiable: s17 is expressible, of depth 3 *)
Example C17_ex_expressible : expressible s17 /\ depth s17 = 3%nat.
Proof.
  split; [|reflexivity]. cbn [s17 expressible expr_mode exportable_pspec ps_enc ps_pref ps_kind ps_packer ps_len ps_pad tg_skip tg_prefunk tg_sort tg_len tg_pad tg_enc
                              bm_auto bm_enc bm_pref bm_len map fst pad_ascii].
  unfold exportable_encs, importable_prefs, two63. cbn [In flat_map map app].
  repeat split; try reflexivity; try discriminate; try lia; try (cbn; lia); intuition (try discriminate; try reflexivity).
  all: cbn; repeat (first [left; reflexivity | right]).
Qed.
