(* C15 Packing is deterministic and free of side effects; clones are independent.
   Proved: the ids Pack walks are the unique ascending arrangement of the presence set, whatever order the map is
   enumerated in (sort_z_perm), likewise the subfield tags (C09_sort_perm/sorted), so the model's Pack/JSON are
   functions of the logical content; Pack and JSON leave values and presence unchanged (only the bookkeeping id 1
   may be added), and Pack / MarshalJSON are repeatable: packing the object a Pack leaves behind gives the same outcome
   and the same object (C15_pack_twice, C15_json_twice); the padders and the LBCD encoder build their results in fresh buffers (C20_no_write); Clone of an
   in-domain message succeeds and the clone - obtained by unpacking the original's bytes into a new object - holds the
   same MTI, bitmap, populated set and content and packs to the very same bytes (C15_clone). Absence of shared
   mutable state between a clone and its original, and writes into caller-owned slices, are properties of Go pointers
   the functional model cannot express: they are checked by the oracle on the library (mutating either side,
   sentinel-filled spare capacity) (partial). *)
From Coq Require Import Sorting.Permutation.
From Iso Require Import Proofs.PackTwice.
From Iso Require Import Model.Base Model.Spec Model.Field Model.Message Model.Json Model.MessageOps Proofs.BaseLemmas Proofs.StateProofs Proofs.MessageRoundtrip Proofs.CloneProofs.

Theorem C15_order_independent : forall l1 l2, Permutation l1 l2 -> sort_z l1 = sort_z l2.
Proof. exact sort_z_perm. Qed.
Print Assumptions C15_order_independent.

Theorem C15_pack_ids_deterministic : forall m p1 p2, Permutation p1 p2 ->
  packable_ids (with_present m p1) = packable_ids (with_present m p2).
Proof. exact packable_ids_perm. Qed.
Print Assumptions C15_pack_ids_deterministic.

Theorem C15_pack_pure : forall S m, let m' := fst (m_pack S m) in
  m_mti m' = m_mti m /\ m_fields m' = m_fields m /\ (forall id, id <> 1 -> zmem id (m_present m') = zmem id (m_present m)).
Proof. exact m_pack_pure. Qed.
Print Assumptions C15_pack_pure.

Theorem C15_json_pure : forall S m, fst (m_json S m) = fst (m_pack S m).
Proof. intros S m. apply m_json_total. Qed.
Print Assumptions C15_json_pure.

(* Pack is repeatable: packing the object a Pack leaves behind gives the same outcome (the same bytes, or the same
   failure) and the same object; likewise MarshalJSON. Together with C15_pack_pure: calling Pack or MarshalJSON any number
   of times between other operations changes nothing those operations or a later Pack can see. *)
Theorem C15_pack_twice : forall S m, m_pack S (fst (m_pack S m)) = m_pack S m.
Proof. exact m_pack_twice. Qed.
Print Assumptions C15_pack_twice.

Theorem C15_json_twice : forall S m, m_json S (fst (m_json S m)) = m_json S m.
Proof. exact m_json_twice. Qed.
Print Assumptions C15_json_twice.

Theorem C15_clone : forall S m m' b, msg_coherent S -> msg_in_dom S m -> m_pack S m = (m', Ok b) ->
  exists c1 c2, m_clone S m = (m', Ok c2) /\ c2 = fst (m_pack S c1) /\ msg_equiv S m' c1 /\ snd (m_pack S c1) = Ok b.
Proof. exact clone_equiv. Qed.
Print Assumptions C15_clone.
