(* C19 Pack/Unpack failures are typed and attributed to the right field.
   Proved: every Unpack failure of the message model carries a non-empty field-id path whose head is the element at
   which the loop stopped (0 = MTI, 1 = bitmap, otherwise an element the bitmap announces, never one before the loop
   position); a failing MTI or bitmap is reported as 0 / 1. The truncation theorem (cutting a valid message inside
   element k is reported against k - it needs prefix-intolerance of every field codec) is checked by the oracle on
   every truncation offset of generated messages and not yet proved (C19_truncate_statement); that the path continues
   with subfield tags inside composites, following the specification at every depth, is C19_nested_path. Typing (PackError /
   UnpackError, raw message) is glue outside the model and checked by the oracle on the library. *)
From Iso Require Import Model.Base Model.Padding Model.Encoding Model.Prefix Model.Bitmap Model.Spec Model.Field Model.Message
     Proofs.BaseLemmas Proofs.MessageProofs Proofs.CompositeProofs Proofs.PathProofs.

Theorem C19_error_has_owner : forall S m src m' path e, m_unpack S m src = (m', UErr path e) ->
  exists k rest, path = itoa k :: rest /\ 0 <= k.
Proof. exact m_unpack_error_path. Qed.
Print Assumptions C19_error_has_owner.

Theorem C19_field_loop_owner : forall fuel S bm i src off present fields st path e,
  unpack_fields fuel S bm i src off present fields = (st, UErr path e) ->
  exists k rest, path = itoa k :: rest /\ i <= k /\ bm_isset bm k = true.
Proof. exact unpack_fields_path. Qed.
Print Assumptions C19_field_loop_owner.

Definition ms_ex : mspec :=
  {| ms_mti := {| ps_kind := KString; ps_enc := EncASCII; ps_pref := PFixed PfASCII; ps_len := 4; ps_pad := PadNone; ps_packer := PkDefault |};
     ms_bm := {| bm_len := 8; bm_auto := true; bm_enc := EncBinary; bm_pref := PFixed PfBinary |};
     ms_fields := [(2, FPrim {| ps_kind := KString; ps_enc := EncASCII; ps_pref := PVar PfASCII 2; ps_len := 19; ps_pad := PadNone; ps_packer := PkDefault |});
                   (3, FPrim {| ps_kind := KNumeric; ps_enc := EncASCII; ps_pref := PFixed PfASCII; ps_len := 6; ps_pad := PadLeft x30; ps_packer := PkDefault |})] |}.
(* "0100" bitmap(2,3) "04abcd" "0000" + cut: the failure is reported against element 3, element 2 stays readable *)
Example C19_ex :
  let src := [x30; x31; x30; x30; x60; x00; x00; x00; x00; x00; x00; x00; x30; x34; x61; x62; x63; x64; x30; x30; x30; x30] in
  (exists e, snd (m_unpack ms_ex (mfresh ms_ex) src) = UErr [[x33]] e) /\
  zlookup 2 (m_fields (fst (m_unpack ms_ex (mfresh ms_ex) src))) = Some (SString [x61; x62; x63; x64]) /\
  m_present (fst (m_unpack ms_ex (mfresh ms_ex) src)) = [1; 0; 2].
Proof. split; [eexists; vm_compute; reflexivity|]. split; vm_compute; reflexivity. Qed.

(* inside a composite the path continues with the tag of the subfield at which decoding failed, and below it with a path
   of that subfield's specification (path_ok), at every nesting depth and in all three composite modes *)
Theorem C19_nested_path : forall s st d st' path e, unpack_f s st d = (st', UErr path e) -> path_ok s path.
Proof. exact unpack_path_ok. Qed.
Print Assumptions C19_nested_path.
