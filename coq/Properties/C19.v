(* C19 Pack/Unpack failures are typed and attributed to the right field.
   Proved: every Unpack failure of the message model carries a non-empty field-id path whose head is the element at
   which the loop stopped (0 = MTI, 1 = bitmap, otherwise an element the bitmap announces, never one before the loop
   position); a failing MTI or bitmap is reported as 0 / 1. The truncation theorem: any field (primitive or composite of any
   mode and depth) cut strictly inside its packed bytes is rejected and reports the failure as its own
   (C19_field_truncated), and a packed message cut at any offset is reported against exactly the element - MTI,
   bitmap or data element - that owns the byte at that offset (C19_message_truncated), for every coherent
   specification and every message of the domain, with auto-expanding and fixed bitmaps alike; that the path continues
   with subfield tags inside composites, following the specification at every depth, is C19_nested_path. The elements that precede the failing one remain
   readable: after the failing Unpack of a cut message the object holds the MTI and every data element before the owner
   of the cut, populated, with a state equivalent to what was packed (C19_message_truncated_readable). Typing (PackError /
   UnpackError, raw message) is glue outside the model and checked by the oracle on the library. *)
From Iso Require Import Model.Base Model.Padding Model.Encoding Model.Prefix Model.Bitmap Model.Spec Model.Field Model.Message
     Proofs.BaseLemmas Proofs.FieldProofs Proofs.MessageProofs Proofs.CompositeProofs Proofs.PathProofs Proofs.MessageRoundtrip Proofs.CoherenceCheck Proofs.TruncationProofs Proofs.TruncationReadable.
From Coq Require Import Lia.

Theorem C19_error_has_owner : forall S m src m' path e, m_unpack S m src = (m', UErr path e) ->
  exists k rest, path = itoa k :: rest /\ 0 <= k.
Proof. exact m_unpack_error_path. Qed.
Print Assumptions C19_error_has_owner.

Theorem C19_field_loop_owner : forall fuel S bm i src off present fields st path e,
  unpack_fields fuel S bm i src off present fields = (st, UErr path e) ->
  exists k rest, path = itoa k :: rest /\ i <= k /\ bm_isset bm k = true.
Proof. exact unpack_fields_path. Qed.
Print Assumptions C19_field_loop_owner.

Definition ms_ex : mspec :=
  {| ms_mti := {| ps_kind := KString; ps_enc := EncASCII; ps_pref := PFixed PfASCII; ps_len := 4; ps_pad := PadNone; ps_packer := PkDefault |};
     ms_bm := {| bm_len := 8; bm_auto := true; bm_enc := EncBinary; bm_pref := PFixed PfBinary |};
     ms_fields := [(2, FPrim {| ps_kind := KString; ps_enc := EncASCII; ps_pref := PVar PfASCII 2; ps_len := 19; ps_pad := PadNone; ps_packer := PkDefault |});
                   (3, FPrim {| ps_kind := KNumeric; ps_enc := EncASCII; ps_pref := PFixed PfASCII; ps_len := 6; ps_pad := PadLeft x30; ps_packer := PkDefault |})] |}.
(* "0100" bitmap(2,3) "04abcd" "0000" + cut: the failure is reported against element 3, element 2 stays readable *)
Example C19_ex :
  let src := [x30; x31; x30; x30; x60; x00; x00; x00; x00; x00; x00; x00; x30; x34; x61; x62; x63; x64; x30; x30; x30; x30] in
  (exists e, snd (m_unpack ms_ex (mfresh ms_ex) src) = UErr [[x33]] e) /\
  zlookup 2 (m_fields (fst (m_unpack ms_ex (mfresh ms_ex) src))) = Some (SString [x61; x62; x63; x64]) /\
  m_present (fst (m_unpack ms_ex (mfresh ms_ex) src)) = [1; 0; 2].
Proof. split; [eexists; vm_compute; reflexivity|]. split; vm_compute; reflexivity. Qed.

(* inside a composite the path continues with the tag of the subfield at which decoding failed, and below it with a path
   of that subfield's specification (path_ok), at every nesting depth and in all three composite modes *)
Theorem C19_nested_path : forall s st d st' path e, unpack_f s st d = (st', UErr path e) -> path_ok s path.
Proof. exact unpack_path_ok. Qed.
Print Assumptions C19_nested_path.

(* ---- truncation ---- *)
(* a field cut strictly inside its packed bytes does not unpack; the failure is its own (empty path below it) and
   the object it was unpacked into is left as it was *)
Theorem C19_field_truncated : forall s st b o st0, coherent s -> in_dom s st -> pack_f s st = Ok b -> 0 <= o < zlen b -> shaped s st0 ->
  exists e, unpack_f s st0 (ztake o b) = (st0, UErr [] e).
Proof. exact field_truncated. Qed.
Print Assumptions C19_field_truncated.

(* a packed message cut at offset o is reported against the element k that owns byte o: b = pre ++ part ++ post with
   o inside part, where part is the packed MTI (k = 0, nothing before it), the packed bitmap (k = 1, the MTI before
   it) or the packed data element k (which is populated) *)
Theorem C19_message_truncated : forall S m m' b, msg_coherent S -> msg_in_dom S m -> m_pack S m = (m', Ok b) ->
  forall m0 o, msg_shaped S m0 -> 0 <= o < zlen b ->
    exists k e, snd (m_unpack S m0 (ztake o b)) = UErr [itoa k] e /\
      exists pre part post, b = pre ++ part ++ post /\ zlen pre <= o < zlen pre + zlen part /\
        (if k =? 0 then pre = [] /\ pack_f (FPrim (ms_mti S)) (m_mti m') = Ok part
         else if k =? 1 then pack_f (FPrim (ms_mti S)) (m_mti m') = Ok pre /\ bm_pack (ms_bm S) (m_bm m') = Ok part
         else zmem k (m_present m') = true /\ exists s st, zlookup k (ms_fields S) = Some s /\ zlookup k (m_fields m') = Some st /\ pack_f s st = Ok part).
Proof. exact message_truncated. Qed.
Print Assumptions C19_message_truncated.

(* the elements that precede the failing one remain readable: after the failing Unpack of the cut message the object
   holds the MTI of the packed message (when the failure is not in the MTI itself) and every data element j < k of the
   packed message, populated, with a state equivalent to the one that was packed *)
Theorem C19_message_truncated_readable : forall S m m' b, msg_coherent S -> msg_in_dom S m -> m_pack S m = (m', Ok b) ->
  forall m0 o, msg_shaped S m0 -> 0 <= o < zlen b ->
    exists k e, snd (m_unpack S m0 (ztake o b)) = UErr [itoa k] e /\ owns S m' b o k /\
      let r := fst (m_unpack S m0 (ztake o b)) in
      (1 <= k -> m_mti r = m_mti m' /\ zmem 0 (m_present r) = true) /\
      (forall j, 2 <= j < k -> zmem j (m_present m') = true ->
         zmem j (m_present r) = true /\ exists s st st', zlookup j (ms_fields S) = Some s /\ zlookup j (m_fields m') = Some st /\ zlookup j (m_fields r) = Some st' /\ equiv s st st').
Proof. exact message_truncated_readable. Qed.
Print Assumptions C19_message_truncated_readable.

(* the hypotheses are satisfiable: ms_ex is coherent, a message with elements 2 and 3 is in the domain and packs, and
   the fresh message is shaped *)
Definition m_ex : mstate :=
  {| m_mti := SString [x30; x31; x30; x30]; m_fields := [(2, SString [x61; x62; x63; x64]); (3, SNumeric 7)];
     m_present := [0; 2; 3]; m_bm := []; m_bmcached := false; m_failed := [] |}.
Example C19_ex_hyps : msg_coherent ms_ex /\ msg_in_dom ms_ex m_ex /\ msg_shaped ms_ex (mfresh ms_ex) /\
  snd (m_pack ms_ex m_ex) = Ok [x30; x31; x30; x30; x60; x00; x00; x00; x00; x00; x00; x00; x30; x34; x61; x62; x63; x64; x30; x30; x30; x30; x30; x37].
Proof.
  split; [apply msg_coherentb_sound; vm_compute; reflexivity|]. split; [|split; [|vm_compute; reflexivity]].
  - split; [repeat constructor; cbn; intuition discriminate|]. split; [reflexivity|]. split.
    + apply prim_in_domain_of_strict. split; [exact I|]. exists [x30; x31; x30; x30]. repeat split; vm_compute; congruence.
    + intros id H. apply zmem_In in H. cbn [m_ex m_present In] in H. destruct H as [<-|[<-|[<-|[]]]]; [left; reflexivity|right; right|right; right].
      * split; [lia|]. split; [reflexivity|]. eexists _, _. split; [reflexivity|]. split; [reflexivity|].
        apply prim_in_domain_of_strict. split; [exact I|]. exists [x61; x62; x63; x64]. repeat split; vm_compute; congruence.
      * split; [lia|]. split; [reflexivity|]. eexists _, _. split; [reflexivity|]. split; [reflexivity|].
        apply prim_in_domain_of_strict. split; [change (0 <= 7 <= max_int); unfold max_int; lia|]. exists (itoa 7). repeat split; vm_compute; congruence.
  - intros id s H. cbn [ms_ex ms_fields zlookup] in H.
    destruct (id =? 2) eqn:E2; [injection H as <-; assert (id = 2) by lia; subst; eexists; split; [reflexivity|exact I]|].
    destruct (id =? 3) eqn:E3; [injection H as <-; assert (id = 3) by lia; subst; eexists; split; [reflexivity|exact I]|]. discriminate.
Qed.

(* ---- typing: the glue around the model (Gen/ErrorTypes.v, regenerated from message.go and field/composite.go by a go/ast
   translator on every run) ---- *)
(* Message.Pack returns what wrapErrorPack returns, and wrapErrorPack returns either no error or a *PackError wrapping the
   error of the core pack; Message.Unpack(src) returns what wrapErrorUnpack(src) returns: no error, or an *UnpackError
   whose Err is the error of the core unpack(src), whose FieldID is the id unpack returned with it and whose RawMessage is
   src itself; the id the core loop returns next to an error is the decimal numeral of the element it was decoding (the
   MTI index, the bitmap index, or the loop variable - what the model's UErr (itoa i :: _) says); a composite wraps the
   failure of its own unpack the same way, with the tag of the failing subfield as FieldID. *)
From Coq Require Import Strings.String.
From Iso Require Import Gen.ErrorTypes.
Open Scope string_scope.
Definition glue_of (n : string) : list string * (list string * list (string * string)) :=
  match find (fun r => String.eqb (fst r) n) err_glue with Some r => snd r | None => ([], ([], [("", "missing")])) end.
Definition g_params n := fst (glue_of n).
Definition g_defs n := fst (snd (glue_of n)).
Definition g_rets n := snd (snd (glue_of n)).
Definition errs_are (allowed : list string) (rets : list (string * string)) : bool :=
  forallb (fun r => existsb (String.eqb (snd r)) allowed) rets.
Definition some_is (e : string) (rets : list (string * string)) : bool := existsb (fun r => String.eqb (snd r) e) rets.
Theorem C19_typed :
  map snd (g_rets "Message.Pack") = ["call wrapErrorPack()"] /\
  g_defs "Message.wrapErrorPack" = ["data,err=pack()"] /\
  errs_are ["nil"; "typed PackError {Err=err}"] (g_rets "Message.wrapErrorPack") = true /\
  some_is "typed PackError {Err=err}" (g_rets "Message.wrapErrorPack") = true /\
  g_params "Message.Unpack" = ["src"] /\ map snd (g_rets "Message.Unpack") = ["call wrapErrorUnpack(src)"] /\
  g_params "Message.wrapErrorUnpack" = ["src"] /\ g_defs "Message.wrapErrorUnpack" = ["fieldID,err=unpack(src)"] /\
  errs_are ["nil"; "typed UnpackError {Err=err; FieldID=fieldID; RawMessage=src}"] (g_rets "Message.wrapErrorUnpack") = true /\
  some_is "typed UnpackError {Err=err; FieldID=fieldID; RawMessage=src}" (g_rets "Message.wrapErrorUnpack") = true /\
  g_params "Message.unpack" = ["src"] /\
  forallb (fun r => (String.eqb (snd r) "nil" && String.eqb (fst r) """""") ||
                    (String.eqb (snd r) "errorf" && existsb (String.eqb (fst r)) ["strconv.Itoa(mtiIdx)"; "strconv.Itoa(bitmapIdx)"; "strconv.Itoa(i)"]))
          (g_rets "Message.unpack") = true /\
  g_params "Composite.wrapErrorUnpack" = ["src"; "isVariableLength"] /\
  g_defs "Composite.wrapErrorUnpack" = ["offset,tagID,err=unpack(src,isVariableLength)"] /\
  errs_are ["nil"; "typed UnpackError {Err=err; FieldID=tagID; RawMessage=src}"] (g_rets "Composite.wrapErrorUnpack") = true /\
  some_is "typed UnpackError {Err=err; FieldID=tagID; RawMessage=src}" (g_rets "Composite.wrapErrorUnpack") = true.
Proof. repeat split; vm_compute; reflexivity. Qed.
Print Assumptions C19_typed.
