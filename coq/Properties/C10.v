(* C10 Unpack result depends only on spec and input bytes, not on prior state.
   Proved: for primitive fields the result and the state after a successful Unpack are independent of the prior
   state. Composites and messages: unpack_f/m_unpack reset the presence sets before decoding (Model/Field.v mirrors
   composite.go after the repair of F12); instances below by computation; the general theorem over histories
   (C10_statement) is checked by the oracle and not yet proved. *)
From Iso Require Import Model.Base Model.Padding Model.Encoding Model.Prefix Model.Bitmap Model.Spec Model.Field Model.Message
     Proofs.BaseLemmas Proofs.FieldProofs Properties.C01.

Theorem C10_prim : forall p st0 st1 data,
  snd (prim_unpack p st0 data) = snd (prim_unpack p st1 data) /\
  (u_is_ok (snd (prim_unpack p st0 data)) = true -> fst (prim_unpack p st0 data) = fst (prim_unpack p st1 data)).
Proof. exact prim_unpack_state_independent. Qed.
Print Assumptions C10_prim.

(* a tagged composite that was populated with both subfields and is then used to unpack only one of them shows
   exactly that one (the F12 scenario), and holds nothing of what it held before (F28: Unpack discards the
   values of the subfields that were set) *)
Example C10_ex_comp :
  let used := SComp [[x31]; [x32]] [([x31], SNumeric 7); ([x32], SBinary [xcd])] in
  let d := [x30; x36; x30; x31; x30; x32; x34; x32] in
  fst (unpack_f c_ex used d) = SComp [[x31]] [([x31], SNumeric 42); ([x32], SBinary [])] /\
  fst (unpack_f c_ex used d) = fst (unpack_f c_ex (fresh c_ex) d) /\
  pack_f c_ex (fst (unpack_f c_ex used d)) = pack_f c_ex (fst (unpack_f c_ex (fresh c_ex) d)).
Proof. split; [|split]; vm_compute; reflexivity. Qed.
