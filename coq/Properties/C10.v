(* C10 Unpack result depends only on spec and input bytes, not on prior state.
   Proved: for primitive fields, for every composite field (any nesting, all three modes) and for whole messages the
   outcome of Unpack does not depend on what the object held, and after a successful Unpack neither does anything
   the object holds (the complete state, hence every observable: values, nested subfields, re-packed bytes, JSON),
   for objects in a clean state: every subfield / data element that is not set is as new. Clean is the invariant of
   the objects the library builds: new objects are clean, and Unpack (also a failing one) and UnsetField keep it
   (C10_*_clean), the setters by id, Message.Marshal of any struct (whatever its outcome) and every accepted
   Message.UnmarshalJSON and UnsetFields by path (C10_marshal_clean, C10_json_clean, C10_unset_path_clean); for failing
   JSON documents (the state then depends on Go's map order) it is not claimed. This rests on the repairs F12 (presence sets are reset), F28 (what was set is re-created)
   and F30 (what failed is re-created); track fields: model and search only.
   Over histories (C10_history): after ANY sequence of the state-changing operations of the message API (the JSON
   documents among them accepted) Unpack behaves as on a new message; C10_history_clean is the invariant. *)
From Iso Require Import Model.Base Model.Padding Model.Encoding Model.Prefix Model.Bitmap Model.Spec Model.Field Model.Message
     Proofs.BaseLemmas Proofs.FieldProofs Proofs.CompositeProofs Proofs.MessageRoundtrip Proofs.IndependenceProofs Properties.C01.
From Iso Require Import Model.MessageOps Model.Marshal Proofs.CleanOps Proofs.HistoryProofs.

Theorem C10_prim : forall p st0 st1 data,
  snd (prim_unpack p st0 data) = snd (prim_unpack p st1 data) /\
  (u_is_ok (snd (prim_unpack p st0 data)) = true -> fst (prim_unpack p st0 data) = fst (prim_unpack p st1 data)).
Proof. exact prim_unpack_state_independent. Qed.
Print Assumptions C10_prim.

Theorem C10_composite : forall pref len mode subs st0 st1 d, NoDup (map fst subs) ->
  let s := FComp pref len mode subs in
  clean s st0 -> clean s st1 ->
  snd (unpack_f s st0 d) = snd (unpack_f s st1 d) /\
  (u_is_ok (snd (unpack_f s st0 d)) = true -> fst (unpack_f s st0 d) = fst (unpack_f s st1 d)).
Proof. exact unpack_f_independent. Qed.
Print Assumptions C10_composite.

Theorem C10_message : forall S m0 m1 d, NoDup (map fst (ms_fields S)) -> msg_clean S m0 -> msg_clean S m1 ->
  snd (m_unpack S m0 d) = snd (m_unpack S m1 d) /\
  (u_is_ok (snd (m_unpack S m0 d)) = true ->
     m_mti (fst (m_unpack S m0 d)) = m_mti (fst (m_unpack S m1 d)) /\
     m_bm (fst (m_unpack S m0 d)) = m_bm (fst (m_unpack S m1 d)) /\
     m_fields (fst (m_unpack S m0 d)) = m_fields (fst (m_unpack S m1 d)) /\
     forall id, zmem id (m_present (fst (m_unpack S m0 d))) = zmem id (m_present (fst (m_unpack S m1 d)))).
Proof. exact m_unpack_independent. Qed.
Print Assumptions C10_message.

(* clean is an invariant: of new objects, of Unpack whatever its outcome, of UnsetField *)
Theorem C10_fresh_clean : (forall s, (match s with FComp _ _ _ subs => NoDup (map fst subs) | _ => True end) -> clean s (fresh s)) /\
                          (forall S, NoDup (map fst (ms_fields S)) -> msg_clean S (mfresh S)).
Proof. split; [exact fresh_clean|exact mfresh_clean]. Qed.
Print Assumptions C10_fresh_clean.

Theorem C10_unpack_clean :
  (forall pref len mode subs st d, NoDup (map fst subs) -> let s := FComp pref len mode subs in clean s st -> clean s (fst (unpack_f s st d))) /\
  (forall S m d, NoDup (map fst (ms_fields S)) -> msg_clean S m -> msg_clean S (fst (m_unpack S m d))) /\
  (forall S m id, NoDup (map fst (ms_fields S)) -> (forall i s, In (i, s) (ms_fields S) -> 2 <= i) -> msg_clean S m -> msg_clean S (m_unset S m id)).
Proof. split; [exact unpack_f_clean|split; [exact m_unpack_clean|exact m_unset_clean]]. Qed.
Print Assumptions C10_unpack_clean.

Theorem C10_set_field_clean : forall S m id val, msg_clean S m -> msg_clean S (fst (m_set_field S m id val)).
Proof. exact m_set_field_clean. Qed.
Print Assumptions C10_set_field_clean.

Theorem C10_marshal_clean : forall S m t v, msg_clean S m -> msg_clean S (fst (m_marshal S m t v)).
Proof. exact m_marshal_clean. Qed.
Print Assumptions C10_marshal_clean.

Theorem C10_json_clean : forall S kvs m m', msg_clean S m -> m_from_json S m kvs = (m', Ok tt) -> msg_clean S m'.
Proof. exact m_from_json_clean. Qed.
Print Assumptions C10_json_clean.

Theorem C10_unset_path_clean : forall S m path, NoDup (map fst (ms_fields S)) -> (forall i s, In (i, s) (ms_fields S) -> 2 <= i) ->
  msg_clean S m -> msg_clean S (fst (m_unset_path S m path)).
Proof. exact m_unset_path_clean. Qed.
Print Assumptions C10_unset_path_clean.

(* ---- histories ---- *)
(* Whatever sequence of state-changing operations of the message API an object has been through since it was created -
   MTI, Field / BinaryField, UnsetField, UnsetFields by path, Unpack and Marshal whatever their outcome, accepted JSON
   documents, Pack, MarshalJSON, Bitmap, Clone (going on with the original or with the copy) - Unpack of any bytes into it
   has the outcome of Unpack into a new message of the same specification and, when it succeeds, leaves the same MTI,
   bitmap, data elements (complete states) and populated set. *)
Theorem C10_history : forall S ops d, NoDup (map fst (ms_fields S)) -> (forall i s, In (i, s) (ms_fields S) -> 2 <= i) ->
  hist_ok S (mfresh S) ops ->
  let used := hrun S (mfresh S) ops in
  snd (m_unpack S used d) = snd (m_unpack S (mfresh S) d) /\
  (u_is_ok (snd (m_unpack S used d)) = true ->
     m_mti (fst (m_unpack S used d)) = m_mti (fst (m_unpack S (mfresh S) d)) /\
     m_bm (fst (m_unpack S used d)) = m_bm (fst (m_unpack S (mfresh S) d)) /\
     m_fields (fst (m_unpack S used d)) = m_fields (fst (m_unpack S (mfresh S) d)) /\
     forall id, zmem id (m_present (fst (m_unpack S used d))) = zmem id (m_present (fst (m_unpack S (mfresh S) d)))).
Proof. exact history_unpack_as_new. Qed.
Print Assumptions C10_history.

(* the invariant behind it, for every reachable state *)
Theorem C10_history_clean : forall S, NoDup (map fst (ms_fields S)) -> (forall i s, In (i, s) (ms_fields S) -> 2 <= i) ->
  forall ops m, msg_clean S m -> hist_ok S m ops -> msg_clean S (hrun S m ops).
Proof. exact history_clean. Qed.
Print Assumptions C10_history_clean.

(* a history over a message with a composite element: write two subfields by JSON, pack, unset one by path, fail an
   Unpack inside the composite, clone; the history is admissible and the object differs from a new one *)
Definition ms_hist : mspec :=
  {| ms_mti := {| ps_kind := KString; ps_enc := EncASCII; ps_pref := PFixed PfASCII; ps_len := 4; ps_pad := PadNone; ps_packer := PkDefault |};
     ms_bm := {| bm_len := 8; bm_auto := true; bm_enc := EncBinary; bm_pref := PFixed PfBinary |};
     ms_fields := [(2, FPrim {| ps_kind := KString; ps_enc := EncASCII; ps_pref := PVar PfASCII 2; ps_len := 19; ps_pad := PadNone; ps_packer := PkDefault |});
                   (3, c_ex)] |}.
Definition ops_hist : list hop :=
  [HMti [x30; x31; x30; x30];
   HFromJson [([x33], JO [([x31], JN 42); ([x32], JS [x61; x62])]); ([x32], JS [x61; x62; x63])];
   HPack; HUnsetPath [x33; x2e; x31]; HJson;
   HUnpack [x30; x31; x30; x30; x20; x00; x00; x00; x00; x00; x00; x00; x30; x39];
   HClone; HSet 2 [x7a]].
Example C10_ex_history :
  NoDup (map fst (ms_fields ms_hist)) /\ (forall i s, In (i, s) (ms_fields ms_hist) -> 2 <= i) /\
  hist_ok ms_hist (mfresh ms_hist) ops_hist /\
  m_fields (hrun ms_hist (mfresh ms_hist) ops_hist) <> m_fields (mfresh ms_hist).
Proof.
  split; [repeat constructor; cbn; intuition discriminate|]. split; [intros i s [H|[H|[]]]; inversion H; lia|].
  split; [vm_compute; repeat split; reflexivity|vm_compute; discriminate].
Qed.

(* track fields (Model/Track.v): the outcome of Unpack does not depend on what the object held, and after an accepted
   Unpack neither do its components (FixedLength, which Unpack never touches, aside): the repairs F13 and F29 *)
From Iso Require Import Model.Track Proofs.TrackIndependence.
Theorem C10_track : forall k p t0 t1 data, tk_fixed t0 = tk_fixed t1 ->
  snd (t_unpack k p t0 data) = snd (t_unpack k p t1 data) /\
  (is_ok (snd (t_unpack k p t0 data)) = true -> fst (t_unpack k p t0 data) = fst (t_unpack k p t1 data)).
Proof. exact t_unpack_independent. Qed.
Print Assumptions C10_track.
(* a Track2 object that held a track and then unpacks an empty one (length prefix 00) holds nothing (the F29 scenario) *)
Example C10_ex_track :
  let p := {| ps_kind := KString; ps_enc := EncASCII; ps_pref := PVar PfASCII 2; ps_len := 37; ps_pad := PadNone; ps_packer := PkDefault |} in
  let used := {| tk_fixed := false; tk_fc := []; tk_pan := [x34; x31; x31; x31]; tk_sep := [x3d]; tk_name := []; tk_exp := Some [x32; x35; x31; x32]; tk_svc := [x31; x30; x31]; tk_dd := [x31] |} in
  t_unpack T2 p used [x30; x30] = (t_empty, Ok 2).
Proof. vm_compute. reflexivity. Qed.

(* composite objects used on their own: after ANY history of the composite API - Unpack and SetBytes whatever their outcome,
   Marshal of a struct (a failing one stores nothing in what is not set: the repair of F32; in what IS set the library keeps
   the subfields written before the failure where the model keeps the previous content - both objects are clean, which is
   all the argument uses, and no generated history observes the difference), accepted UnmarshalJSON
   documents, UnsetSubfields by path - Unpack of any bytes has the outcome, and on success leaves the complete state, of
   Unpack into a new composite *)
From Iso Require Import Proofs.CompositeHistory.
Theorem C10_composite_history : forall pref len mode subs ops d, NoDup (map fst subs) ->
  let s := FComp pref len mode subs in
  chist_ok s (fresh s) ops ->
  let used := crun s (fresh s) ops in
  snd (unpack_f s used d) = snd (unpack_f s (fresh s) d) /\
  (u_is_ok (snd (unpack_f s used d)) = true -> fst (unpack_f s used d) = fst (unpack_f s (fresh s) d)).
Proof. exact comp_history_unpack_as_new. Qed.
Print Assumptions C10_composite_history.
(* a history on the nested example composite: an accepted JSON document, SetBytes, an unset by path; the object differs
   from a new one, and Unpack behaves as on a new one *)
Example C10_ex_composite_history :
  let ops := [CFromJson (JO [([x31], JN 5); ([x32], JS [x41; x42])]); CSetBytes [x30; x31; x30; x31; x37]; CUnsetPath [[x31]]; CFromJson (JO [([x32], JS [x43; x44])])] in
  chist_ok c_ex (fresh c_ex) ops /\ crun c_ex (fresh c_ex) ops <> fresh c_ex.
Proof. split; [vm_compute; repeat split; reflexivity|vm_compute; discriminate]. Qed.

(* a tagged composite that was populated with both subfields and is then used to unpack only one of them shows
   exactly that one (the F12 scenario), and holds nothing of what it held before (F28: Unpack discards the
   values of the subfields that were set) *)
Example C10_ex_comp :
  let used := SComp [[x31]; [x32]] [([x31], SNumeric 7); ([x32], SBinary [xcd])] in
  clean c_ex used /\
  let d := [x30; x36; x30; x31; x30; x32; x34; x32] in
  fst (unpack_f c_ex used d) = SComp [[x31]] [([x31], SNumeric 42); ([x32], SBinary [])] /\
  fst (unpack_f c_ex used d) = fst (unpack_f c_ex (fresh c_ex) d) /\
  pack_f c_ex (fst (unpack_f c_ex used d)) = pack_f c_ex (fst (unpack_f c_ex (fresh c_ex) d)).
Proof. split; [split; [reflexivity|intros t s' [H|[H|[]]] Hm; inversion H; subst; discriminate Hm]|split; [|split]; vm_compute; reflexivity]. Qed.
