(* C11 Struct Marshal/Unmarshal round-trips data and respects presence.
   Model: Model/Marshal.v - the reflection message.go / composite.go perform over a universe of Go types (string, int,
   int64, []byte, pointers, the library's field types, nested structs) including field/index_tag.go (index > iso8583 >
   F<n> name, keepzero), zero-ness, pointer allocation, and the per-kind type switches.
   Proved: for the documented cells of the matrix (DESIGN.md Appendix A) Marshal followed by Unmarshal into a zero
   value of the same Go type returns the value in the target's canonical form; a zero-valued struct field without
   keepzero leaves the message untouched; Unmarshal leaves a struct field untouched when its message field is absent.
   The plain []byte target is refuted (finding F14). Nested structs to depth 3, all tag styles and the round trip via
   Pack/Unpack are covered by correspondence over the whole matrix and by the oracle (partial: no theorem yet for
   whole structs). *)
From Iso Require Import Model.Base Model.Spec Model.Field Model.Message Model.Marshal Proofs.BaseLemmas Proofs.MarshalProofs.

Theorem C11_roundtrip_string :
  (forall s, prim_marshal KString TStr (VStr s) = Ok (SString s) /\ prim_unmarshal (SString s) TStr (VStr []) = Ok (VStr s)) /\
  (forall s, s <> [] -> prim_marshal KString (TPtr TStr) (VPtr (Some (VStr s))) = Ok (SString s) /\
                        prim_unmarshal (SString s) (TPtr TStr) (VPtr None) = Ok (VPtr (Some (VStr s)))) /\
  (forall z, 0 <= z <= max_int -> prim_marshal KString TInt (VInt z) = Ok (SString (itoa z)) /\
                                  prim_unmarshal (SString (itoa z)) TInt (VInt 0) = Ok (VInt z)) /\
  (forall z, 0 <= z <= max_int -> prim_marshal KString TInt64 (VInt64 z) = Ok (SString (itoa z)) /\
                                  prim_unmarshal (SString (itoa z)) TInt64 (VInt64 0) = Ok (VInt64 z)) /\
  (forall z, 0 <= z <= max_int -> prim_marshal KString (TPtr TInt) (VPtr (Some (VInt z))) = Ok (SString (itoa z)) /\
                                  prim_unmarshal (SString (itoa z)) (TPtr TInt) (VPtr None) = Ok (VPtr (Some (VInt z)))) /\
  (forall s, prim_marshal KString (TLib KString) (VLib (Some (SString s))) = Ok (SString s) /\
             prim_unmarshal (SString s) (TLib KString) (VLib None) = Ok (VLib (Some (SString s)))).
Proof. exact leaf_roundtrip_string. Qed.
Print Assumptions C11_roundtrip_string.

Theorem C11_roundtrip_numeric :
  (forall z, 0 < z <= max_int -> prim_marshal KNumeric TInt64 (VInt64 z) = Ok (SNumeric z) /\
                                 prim_unmarshal (SNumeric z) TInt64 (VInt64 0) = Ok (VInt64 z)) /\
  (forall z, 0 < z <= max_int -> prim_marshal KNumeric TStr (VStr (itoa z)) = Ok (SNumeric z) /\
                                 prim_unmarshal (SNumeric z) TStr (VStr []) = Ok (VStr (itoa z))) /\
  (forall z, 0 <= z <= max_int -> prim_marshal KNumeric (TPtr TInt64) (VPtr (Some (VInt64 z))) = Ok (SNumeric z) /\
                                  prim_unmarshal (SNumeric z) (TPtr TInt64) (VPtr None) = Ok (VPtr (Some (VInt64 z)))) /\
  (forall z, prim_marshal KNumeric (TLib KNumeric) (VLib (Some (SNumeric z))) = Ok (SNumeric z) /\
             prim_unmarshal (SNumeric z) (TLib KNumeric) (VLib None) = Ok (VLib (Some (SNumeric z)))).
Proof. exact leaf_roundtrip_numeric. Qed.
Print Assumptions C11_roundtrip_numeric.

Theorem C11_roundtrip_binary :
  (forall b, b <> [] -> prim_marshal KBinary (TPtr TBytes) (VPtr (Some (VBytes (Some b)))) = Ok (SBinary b) /\
                        prim_unmarshal (SBinary b) (TPtr TBytes) (VPtr None) = Ok (VPtr (Some (VBytes (Some b))))) /\
  (forall b, b <> [] -> prim_marshal KBinary TStr (VStr (hex_encode_lower b)) = Ok (SBinary b) /\
                        prim_unmarshal (SBinary b) TStr (VStr []) = Ok (VStr (hex_encode_lower b))) /\
  (forall b, prim_marshal KBinary (TLib KBinary) (VLib (Some (SBinary b))) = Ok (SBinary b) /\
             prim_unmarshal (SBinary b) (TLib KBinary) (VLib None) = Ok (VLib (Some (SBinary b)))) /\
  (forall b, b <> [] -> prim_marshal KBinary TBytes (VBytes (Some b)) = Ok (SBinary b) /\ is_err (prim_unmarshal (SBinary b) TBytes (VBytes None)) = true).
Proof. exact leaf_roundtrip_binary. Qed.
Print Assumptions C11_roundtrip_binary.

Theorem C11_roundtrip_hex :
  (forall s, s <> [] -> prim_marshal KHex TStr (VStr s) = Ok (SHex s) /\ prim_unmarshal (SHex s) TStr (VStr []) = Ok (VStr s)) /\
  (forall b, b <> [] -> prim_marshal KHex (TPtr TBytes) (VPtr (Some (VBytes (Some b)))) = Ok (SHex (hex_encode_upper b)) /\
                        prim_unmarshal (SHex (hex_encode_upper b)) (TPtr TBytes) (VPtr None) = Ok (VPtr (Some (VBytes (Some b))))) /\
  (forall s, prim_marshal KHex (TLib KHex) (VLib (Some (SHex s))) = Ok (SHex s) /\
             prim_unmarshal (SHex s) (TLib KHex) (VLib None) = Ok (VLib (Some (SHex s)))).
Proof. exact leaf_roundtrip_hex. Qed.
Print Assumptions C11_roundtrip_hex.

(* zero-valued fields are left out of the message unless tagged keepzero *)
Theorem C11_zero_skipped : forall S m d ft fv rest, it_keepzero (index_tag_of d) = false -> g_is_zero fv = true -> 2 <= it_id (index_tag_of d) ->
  (exists s st, zlookup (it_id (index_tag_of d)) (ms_fields S) = Some s /\ zlookup (it_id (index_tag_of d)) (m_fields m) = Some st) ->
  m_marshal_fields S m ((d, ft, fv) :: rest) = m_marshal_fields S m rest.
Proof. exact marshal_zero_skipped. Qed.
Print Assumptions C11_zero_skipped.

(* Unmarshal writes only those struct fields whose message field is present *)
Theorem C11_absent_untouched : forall S m d ft fv rest, 2 <= it_id (index_tag_of d) -> zmem (it_id (index_tag_of d)) (m_present m) = false ->
  m_unmarshal_fields S m ((d, ft, fv) :: rest) = (do r <- m_unmarshal_fields S m rest; Ok (fv :: r)).
Proof. exact unmarshal_absent_untouched. Qed.
Print Assumptions C11_absent_untouched.

Example C11_ex_tag : index_tag_of (GDecl [x32; x2c; x6b; x65; x65; x70; x7a; x65; x72; x6f] [x39] [x58]) = {| it_id := 2; it_tag := [x32]; it_keepzero := true |} /\
                     index_tag_of (GDecl [] [] [x46; x34; x38]) = {| it_id := 48; it_tag := [x34; x38]; it_keepzero := false |}.
Proof. split; vm_compute; reflexivity. Qed.
