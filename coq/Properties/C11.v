(* C11 Struct Marshal/Unmarshal round-trips data and respects presence.
   Model: Model/Marshal.v - the reflection message.go / composite.go perform over a universe of Go types (string, int,
   int64, []byte, pointers, the library's field types, nested structs) including field/index_tag.go (index > iso8583 >
   F<n> name, keepzero), zero-ness, pointer allocation, and the per-kind type switches.
   Proved: for the documented cells of the matrix (DESIGN.md Appendix A) Marshal followed by Unmarshal into a zero
   value of the same Go type returns the value in the target's canonical form; a zero-valued struct field without
   keepzero leaves the message untouched; Unmarshal leaves a struct field untouched when its message field is absent.
   The plain []byte target is refuted (finding F14). Whole structs: for every struct whose indexed fields are bound
   (by index / iso8583 tag or F<n> name, pairwise distinct ids) to the MTI or to primitive data elements and hold either
   a zero value without keepzero or a documented non-zero cell (the inductive cell), Message.Marshal succeeds and
   Message.Unmarshal into a zero value of the same struct type returns every non-zero field unchanged and leaves every
   other field zero (C11_struct_roundtrip); the same holds when the marshalled message is packed and the bytes are
   unpacked into another message object first (C11_struct_wire_roundtrip: any coherent spec, any in-domain result of
   Marshal, anything after the packed bytes). Nested structs: Composite.Marshal of a pointer to a struct whose tagged
   fields hold documented cells, zero values or - recursively, to any depth - pointers to such structs, followed by
   Composite.Unmarshal into a nil pointer of the same type, returns every non-zero field unchanged at every depth
   (C11_nested_roundtrip, by induction over the depth), and so does Message.Marshal / Message.Unmarshal for structs bound
   to composite data elements of a message object that has not been populated (C11_struct_roundtrip_nested, depth within
   the library's recursion = the model's fuel 8), also after Pack and Unpack into another message object
   (C11_struct_wire_roundtrip_nested). keepzero: a struct field tagged keepzero is written whatever its value,
   and the zero value of every documented Go type marshals (C11_keepzero_written, C11_zero_marshals); what a
   keepzero zero field reads back as - the zero value, a pointer to it for pointer targets, "0" in a string target of
   a Numeric field - and that this value marshals to the same field state (C11_keepzero_readback,
   C11_keepzero_readback_is_zero). *)
From Iso Require Import Model.Base Model.Padding Model.Encoding Model.Prefix Model.Bitmap Model.Spec Model.Field Model.Message Model.Marshal Proofs.BaseLemmas Proofs.MarshalProofs Proofs.CompositeProofs Proofs.MessageRoundtrip Proofs.MarshalStruct Proofs.MarshalNested.
From Coq Require Import Lia.

Theorem C11_roundtrip_string :
  (forall s, prim_marshal KString TStr (VStr s) = Ok (SString s) /\ prim_unmarshal (SString s) TStr (VStr []) = Ok (VStr s)) /\
  (forall s, s <> [] -> prim_marshal KString (TPtr TStr) (VPtr (Some (VStr s))) = Ok (SString s) /\
                        prim_unmarshal (SString s) (TPtr TStr) (VPtr None) = Ok (VPtr (Some (VStr s)))) /\
  (forall z, 0 <= z <= max_int -> prim_marshal KString TInt (VInt z) = Ok (SString (itoa z)) /\
                                  prim_unmarshal (SString (itoa z)) TInt (VInt 0) = Ok (VInt z)) /\
  (forall z, 0 <= z <= max_int -> prim_marshal KString TInt64 (VInt64 z) = Ok (SString (itoa z)) /\
                                  prim_unmarshal (SString (itoa z)) TInt64 (VInt64 0) = Ok (VInt64 z)) /\
  (forall z, 0 <= z <= max_int -> prim_marshal KString (TPtr TInt) (VPtr (Some (VInt z))) = Ok (SString (itoa z)) /\
                                  prim_unmarshal (SString (itoa z)) (TPtr TInt) (VPtr None) = Ok (VPtr (Some (VInt z)))) /\
  (forall s, prim_marshal KString (TLib KString) (VLib (Some (SString s))) = Ok (SString s) /\
             prim_unmarshal (SString s) (TLib KString) (VLib None) = Ok (VLib (Some (SString s)))).
Proof. exact leaf_roundtrip_string. Qed.
Print Assumptions C11_roundtrip_string.

Theorem C11_roundtrip_numeric :
  (forall z, 0 < z <= max_int -> prim_marshal KNumeric TInt64 (VInt64 z) = Ok (SNumeric z) /\
                                 prim_unmarshal (SNumeric z) TInt64 (VInt64 0) = Ok (VInt64 z)) /\
  (forall z, 0 < z <= max_int -> prim_marshal KNumeric TStr (VStr (itoa z)) = Ok (SNumeric z) /\
                                 prim_unmarshal (SNumeric z) TStr (VStr []) = Ok (VStr (itoa z))) /\
  (forall z, 0 <= z <= max_int -> prim_marshal KNumeric (TPtr TInt64) (VPtr (Some (VInt64 z))) = Ok (SNumeric z) /\
                                  prim_unmarshal (SNumeric z) (TPtr TInt64) (VPtr None) = Ok (VPtr (Some (VInt64 z)))) /\
  (forall z, prim_marshal KNumeric (TLib KNumeric) (VLib (Some (SNumeric z))) = Ok (SNumeric z) /\
             prim_unmarshal (SNumeric z) (TLib KNumeric) (VLib None) = Ok (VLib (Some (SNumeric z)))).
Proof. exact leaf_roundtrip_numeric. Qed.
Print Assumptions C11_roundtrip_numeric.

Theorem C11_roundtrip_binary :
  (forall b, b <> [] -> prim_marshal KBinary (TPtr TBytes) (VPtr (Some (VBytes (Some b)))) = Ok (SBinary b) /\
                        prim_unmarshal (SBinary b) (TPtr TBytes) (VPtr None) = Ok (VPtr (Some (VBytes (Some b))))) /\
  (forall b, b <> [] -> prim_marshal KBinary TStr (VStr (hex_encode_lower b)) = Ok (SBinary b) /\
                        prim_unmarshal (SBinary b) TStr (VStr []) = Ok (VStr (hex_encode_lower b))) /\
  (forall b, prim_marshal KBinary (TLib KBinary) (VLib (Some (SBinary b))) = Ok (SBinary b) /\
             prim_unmarshal (SBinary b) (TLib KBinary) (VLib None) = Ok (VLib (Some (SBinary b)))) /\
  (forall b, b <> [] -> prim_marshal KBinary TBytes (VBytes (Some b)) = Ok (SBinary b) /\ is_err (prim_unmarshal (SBinary b) TBytes (VBytes None)) = true).
Proof. exact leaf_roundtrip_binary. Qed.
Print Assumptions C11_roundtrip_binary.

Theorem C11_roundtrip_hex :
  (forall s, s <> [] -> prim_marshal KHex TStr (VStr s) = Ok (SHex s) /\ prim_unmarshal (SHex s) TStr (VStr []) = Ok (VStr s)) /\
  (forall b, b <> [] -> prim_marshal KHex (TPtr TBytes) (VPtr (Some (VBytes (Some b)))) = Ok (SHex (hex_encode_upper b)) /\
                        prim_unmarshal (SHex (hex_encode_upper b)) (TPtr TBytes) (VPtr None) = Ok (VPtr (Some (VBytes (Some b))))) /\
  (forall s, prim_marshal KHex (TLib KHex) (VLib (Some (SHex s))) = Ok (SHex s) /\
             prim_unmarshal (SHex s) (TLib KHex) (VLib None) = Ok (VLib (Some (SHex s)))).
Proof. exact leaf_roundtrip_hex. Qed.
Print Assumptions C11_roundtrip_hex.

(* zero-valued fields are left out of the message unless tagged keepzero *)
Theorem C11_zero_skipped : forall S m d ft fv rest, it_keepzero (index_tag_of d) = false -> g_is_zero fv = true -> 2 <= it_id (index_tag_of d) ->
  (exists s st, zlookup (it_id (index_tag_of d)) (ms_fields S) = Some s /\ zlookup (it_id (index_tag_of d)) (m_fields m) = Some st) ->
  m_marshal_fields S m ((d, ft, fv) :: rest) = m_marshal_fields S m rest.
Proof. exact marshal_zero_skipped. Qed.
Print Assumptions C11_zero_skipped.

(* Unmarshal writes only those struct fields whose message field is present *)
Theorem C11_absent_untouched : forall S m d ft fv rest, 2 <= it_id (index_tag_of d) -> zmem (it_id (index_tag_of d)) (m_present m) = false ->
  m_unmarshal_fields S m ((d, ft, fv) :: rest) = (do r <- m_unmarshal_fields S m rest; Ok (fv :: r)).
Proof. exact unmarshal_absent_untouched. Qed.
Print Assumptions C11_absent_untouched.

Example C11_ex_tag : index_tag_of (GDecl [x32; x2c; x6b; x65; x65; x70; x7a; x65; x72; x6f] [x39] [x58]) = {| it_id := 2; it_tag := [x32]; it_keepzero := true |} /\
                     index_tag_of (GDecl [] [] [x46; x34; x38]) = {| it_id := 48; it_tag := [x34; x38]; it_keepzero := false |}.
Proof. split; vm_compute; reflexivity. Qed.

(* every documented non-zero cell: Marshal gives the field state, Unmarshal of that state into any current value of
   the same Go type gives the value back *)
Theorem C11_cell_roundtrip : forall k t v st, cell k t v st ->
  documented k t = true /\ g_is_zero v = false /\ prim_marshal k t v = Ok st /\ forall cur, prim_unmarshal st t cur = Ok v.
Proof. exact cell_roundtrip. Qed.
Print Assumptions C11_cell_roundtrip.

(* whole structs over the MTI and primitive data elements *)
Theorem C11_struct_roundtrip : forall S m fields vals, length vals = length fields ->
  let l := zip_decls fields vals in
  Forall (row_ok S) l -> has_states S m -> NoDup (map rid (filter indexed l)) ->
  (forall r, In r l -> 0 <= rid r -> zmem (rid r) (m_present m) = false) ->
  exists m', m_marshal S m (TPtr (TStruct fields)) (VPtr (Some (VStruct vals))) = (m', Ok tt) /\
    m_unmarshal S m' (TPtr (TStruct fields)) (VPtr (Some (VStruct (map (fun df => g_zero (snd df)) fields)))) = Ok (VPtr (Some (VStruct (map expected l)))).
Proof. exact struct_roundtrip. Qed.
Print Assumptions C11_struct_roundtrip.

(* ... and via Pack and Unpack into another message *)
Theorem C11_struct_wire_roundtrip : forall S m fields vals, length vals = length fields ->
  let l := zip_decls fields vals in
  Forall (row_ok S) l -> has_states S m -> NoDup (map rid (filter indexed l)) ->
  (forall r, In r l -> 0 <= rid r -> zmem (rid r) (m_present m) = false) ->
  msg_coherent S ->
  exists m', m_marshal S m (TPtr (TStruct fields)) (VPtr (Some (VStruct vals))) = (m', Ok tt) /\
    forall mp b, msg_in_dom S m' -> m_pack S m' = (mp, Ok b) -> forall m0 rest, msg_shaped S m0 ->
      exists m2, m_unpack S m0 (b ++ rest) = (m2, UOk (zlen b)) /\
        m_unmarshal S m2 (TPtr (TStruct fields)) (VPtr (Some (VStruct (map (fun df => g_zero (snd df)) fields)))) = Ok (VPtr (Some (VStruct (map expected l)))).
Proof. exact struct_wire_roundtrip. Qed.
Print Assumptions C11_struct_wire_roundtrip.

(* ... unless tagged keepzero *)
Theorem C11_keepzero_written : forall S m d ft fv rest p st0 st,
  it_keepzero (index_tag_of d) = true -> 2 <= it_id (index_tag_of d) ->
  zlookup (it_id (index_tag_of d)) (ms_fields S) = Some (FPrim p) -> zlookup (it_id (index_tag_of d)) (m_fields m) = Some st0 ->
  prim_marshal (ps_kind p) ft fv = Ok st ->
  m_marshal_fields S m ((d, ft, fv) :: rest) =
  m_marshal_fields S (with_present (with_fields m (zupdate (it_id (index_tag_of d)) st (m_fields m))) (zadd (it_id (index_tag_of d)) (m_present m))) rest.
Proof. exact marshal_keepzero_written. Qed.
Print Assumptions C11_keepzero_written.

Theorem C11_zero_marshals : forall k t, documented k t = true -> exists st, prim_marshal k t (g_zero t) = Ok st.
Proof. exact zero_marshals. Qed.
Print Assumptions C11_zero_marshals.

(* what the keepzero zero field reads back as, for every documented cell: zero_back k t (the zero value, a pointer to it
   where the target is a pointer, "0" in a string target of a Numeric field), whatever the target held; re-marshalling
   that value gives the same field state, so the message on the wire is the same *)
Theorem C11_keepzero_readback : forall k t, documented k t = true ->
  exists st, prim_marshal k t (g_zero t) = Ok st /\ (forall cur, prim_unmarshal st t cur = Ok (zero_back k t)) /\
             prim_marshal k t (zero_back k t) = Ok st.
Proof. exact keepzero_readback. Qed.
Print Assumptions C11_keepzero_readback.

Theorem C11_keepzero_readback_is_zero : forall k t, documented k t = true -> k <> KNumeric \/ (t <> TStr /\ t <> TPtr TStr) ->
  match t with TLib k' => zero_back k t = VLib (Some (zero_state k')) | TPtr t' => g_deref (zero_back k t) = g_zero t' | _ => zero_back k t = g_zero t end.
Proof. exact zero_back_is_zero. Qed.
Print Assumptions C11_keepzero_readback_is_zero.

(* nested structs, Composite.Marshal / Composite.Unmarshal: vok n spells out the values (a documented non-zero cell of a
   primitive subfield; for a composite a pointer to a struct whose tagged fields have pairwise distinct tags naming
   subfields and hold zero values without keepzero or, recursively, such values); expv is what comes back: the non-zero
   tagged fields as they are, everything else zero *)
Theorem C11_nested_roundtrip : forall n s t v, vok n s t v ->
  exists st, marshal_into n s (fresh s) t v = Ok st /\ unmarshal_from n s st t (g_zero t) = Ok (expv n s t v).
Proof. exact nested_roundtrip. Qed.
Print Assumptions C11_nested_roundtrip.

Theorem C11_struct_roundtrip_nested : forall S m fields vals, length vals = length fields ->
  let l := zip_decls fields vals in
  Forall (grow_ok S m) l -> NoDup (map rid (filter indexed l)) ->
  (forall r, In r l -> 0 <= rid r -> zmem (rid r) (m_present m) = false) ->
  exists m', m_marshal S m (TPtr (TStruct fields)) (VPtr (Some (VStruct vals))) = (m', Ok tt) /\
    m_unmarshal S m' (TPtr (TStruct fields)) (VPtr (Some (VStruct (map (fun df => g_zero (snd df)) fields)))) = Ok (VPtr (Some (VStruct (map (gexpected S) l)))).
Proof. exact gstruct_roundtrip. Qed.
Print Assumptions C11_struct_roundtrip_nested.

(* ... and the nested version via Pack and Unpack into another message: composite states that are equivalent (what the
   round trip of C01 gives) unmarshal to the same value (C11_unmarshal_equiv) *)
Theorem C11_unmarshal_equiv : forall n s x y t cur, equiv s x y -> unmarshal_from n s y t cur = unmarshal_from n s x t cur.
Proof. exact unmarshal_equiv. Qed.
Print Assumptions C11_unmarshal_equiv.

Theorem C11_struct_wire_roundtrip_nested : forall S m fields vals, length vals = length fields ->
  let l := zip_decls fields vals in
  Forall (grow_ok S m) l -> NoDup (map rid (filter indexed l)) ->
  (forall r, In r l -> 0 <= rid r -> zmem (rid r) (m_present m) = false) ->
  msg_coherent S ->
  exists m', m_marshal S m (TPtr (TStruct fields)) (VPtr (Some (VStruct vals))) = (m', Ok tt) /\
    forall mp b, msg_in_dom S m' -> m_pack S m' = (mp, Ok b) -> forall m0 rest, msg_shaped S m0 ->
      exists m2, m_unpack S m0 (b ++ rest) = (m2, UOk (zlen b)) /\
        m_unmarshal S m2 (TPtr (TStruct fields)) (VPtr (Some (VStruct (map (fun df => g_zero (snd df)) fields)))) = Ok (VPtr (Some (VStruct (map (gexpected S) l)))).
Proof. exact gstruct_wire_roundtrip. Qed.
Print Assumptions C11_struct_wire_roundtrip_nested.

(* an instance: struct { F0 string; F2 *string `iso8583:"2"`; Amount int64 `index:"3"`; Note string (no index); F4 string (zero) } *)
Definition s11 : mspec :=
  {| ms_mti := {| ps_kind := KString; ps_enc := EncASCII; ps_pref := PFixed PfASCII; ps_len := 4; ps_pad := PadNone; ps_packer := PkDefault |};
     ms_bm := {| bm_len := 8; bm_auto := true; bm_enc := EncBinary; bm_pref := PFixed PfBinary |};
     ms_fields := [(2, FPrim {| ps_kind := KString; ps_enc := EncASCII; ps_pref := PVar PfASCII 2; ps_len := 19; ps_pad := PadNone; ps_packer := PkDefault |});
                   (3, FPrim {| ps_kind := KNumeric; ps_enc := EncASCII; ps_pref := PFixed PfASCII; ps_len := 6; ps_pad := PadLeft x30; ps_packer := PkDefault |});
                   (4, FPrim {| ps_kind := KString; ps_enc := EncASCII; ps_pref := PFixed PfASCII; ps_len := 3; ps_pad := PadNone; ps_packer := PkDefault |})] |}.
Definition f11 : list (gdecl * gty) :=
  [(GDecl [] [] [x46; x30], TStr); (GDecl [] [x32] [x50; x41; x4e], TPtr TStr); (GDecl [x33] [] [x41], TInt64); (GDecl [] [] [x4e; x6f; x74; x65], TStr); (GDecl [] [] [x46; x34], TStr)].
Definition v11 : list gval := [VStr [x30; x31; x30; x30]; VPtr (Some (VStr [x34; x32])); VInt64 77; VStr [x78]; VStr []].
Example C11_ex_struct :
  Forall (row_ok s11) (zip_decls f11 v11) /\ has_states s11 (mfresh s11) /\ NoDup (map rid (filter indexed (zip_decls f11 v11))) /\
  map expected (zip_decls f11 v11) = [VStr [x30; x31; x30; x30]; VPtr (Some (VStr [x34; x32])); VInt64 77; VStr []; VStr []].
Proof.
  split; [|split; [|split; [|vm_compute; reflexivity]]].
  - cbn [zip_decls f11 v11]. apply Forall_cons; [|apply Forall_cons; [|apply Forall_cons; [|apply Forall_cons; [|apply Forall_cons; [|apply Forall_nil]]]]].
    + right. split; [vm_compute; discriminate|]. split; [vm_compute; discriminate|]. eexists. split; [reflexivity|]. right. eexists. apply c_s_str. discriminate.
    + right. split; [vm_compute; discriminate|]. split; [vm_compute; discriminate|]. eexists. split; [reflexivity|]. right. eexists. apply c_s_pstr. discriminate.
    + right. split; [vm_compute; discriminate|]. split; [vm_compute; discriminate|]. eexists. split; [reflexivity|]. right. eexists. apply c_n_int64. unfold max_int. lia.
    + left. vm_compute. reflexivity.
    + right. split; [vm_compute; discriminate|]. split; [vm_compute; discriminate|]. eexists. split; [reflexivity|]. left. split; reflexivity.
  - intros id s H. cbn [s11 ms_fields zlookup] in H. cbn [mfresh s11 ms_fields map m_fields zlookup].
    destruct (id =? 2); [eexists; reflexivity|]. destruct (id =? 3); [eexists; reflexivity|]. destruct (id =? 4); [eexists; reflexivity|discriminate].
  - vm_compute. repeat constructor; cbn; intuition discriminate.
Qed.

(* an instance of the nested theorem: a tagged composite with a String and a Numeric subfield and
   &struct{ A string `index:"1"`; N int64 `index:"2"`; Skip string (no tag); Z string `index:"3"` (zero) } *)
Definition cn : fspec :=
  FComp (PVar PfASCII 2) 99 (CTag {| tg_len := 1; tg_enc := Some EncASCII; tg_pad := PadNone; tg_sort := SortByInt; tg_skip := false; tg_prefunk := None |})
        [([x31], FPrim {| ps_kind := KString; ps_enc := EncASCII; ps_pref := PVar PfASCII 1; ps_len := 5; ps_pad := PadNone; ps_packer := PkDefault |});
         ([x32], FPrim {| ps_kind := KNumeric; ps_enc := EncASCII; ps_pref := PVar PfASCII 1; ps_len := 5; ps_pad := PadNone; ps_packer := PkDefault |});
         ([x33], FPrim {| ps_kind := KString; ps_enc := EncASCII; ps_pref := PVar PfASCII 1; ps_len := 5; ps_pad := PadNone; ps_packer := PkDefault |})].
Definition tn : gty := TPtr (TStruct [(GDecl [x31] [] [x41], TStr); (GDecl [x32] [] [x4e], TInt64); (GDecl [] [] [x53], TStr); (GDecl [x33] [] [x5a], TStr)]).
Definition vn : gval := VPtr (Some (VStruct [VStr [x61; x62]; VInt64 7; VStr [x78]; VStr []])).
Example C11_ex_nested : vok 2 cn tn vn /\
  expv 2 cn tn vn = VPtr (Some (VStruct [VStr [x61; x62]; VInt64 7; VStr []; VStr []])) /\
  (exists st, marshal_into 2 cn (fresh cn) tn vn = Ok st /\ unmarshal_from 2 cn st tn (g_zero tn) = Ok (VPtr (Some (VStruct [VStr [x61; x62]; VInt64 7; VStr []; VStr []])))).
Proof.
  split; [|split; [vm_compute; reflexivity|eexists; split; [vm_compute; reflexivity|vm_compute; reflexivity]]].
  cbn [vok cn]. split; [repeat constructor; cbn; intuition discriminate|]. eexists _, _. split; [reflexivity|]. split; [reflexivity|]. split; [reflexivity|].
  split; [vm_compute; repeat constructor; cbn; intuition discriminate|]. cbn [zip_decls].
  apply Forall_cons; [|apply Forall_cons; [|apply Forall_cons; [|apply Forall_cons; [|apply Forall_nil]]]].
  - right. split; [reflexivity|]. eexists. split; [reflexivity|]. right. split; [reflexivity|]. eexists. apply c_s_str. discriminate.
  - right. split; [reflexivity|]. eexists. split; [reflexivity|]. right. split; [reflexivity|]. eexists. apply c_n_int64. unfold max_int. lia.
  - left. reflexivity.
  - right. split; [reflexivity|]. eexists. split; [reflexivity|]. left. split; reflexivity.
Qed.
