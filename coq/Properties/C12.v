(* C12 JSON encoding of messages is well-formed and round-trips.
   Proved: MarshalJSON succeeds exactly when Pack does and leaves the same state; every JSON object lists its keys
   in the StringsByInt order of the key set whatever the map order (json_object is the model of OrderedMap); the
   keys of the message object are the present field numbers (m_json builds them from m_present); integers are
   sorted ascending by sort_tags (C09_sort_sorted). Syntactic validity of the escaped text and the decode round trip
   are checked by the oracle (json.Valid, key order, UnmarshalJSON into a fresh message, identical re-pack) and by
   byte-for-byte correspondence of the JSON text; their theorems are not yet proved (partial). *)
From Iso Require Import Model.Base Model.Sexp Model.Spec Model.Field Model.Message Model.Json Model.MessageOps Proofs.BaseLemmas Proofs.StateProofs.

Theorem C12_total : forall S m, is_ok (snd (m_json S m)) = is_ok (snd (m_pack S m)) /\ fst (m_json S m) = fst (m_pack S m).
Proof. exact m_json_total. Qed.
Print Assumptions C12_total.

Theorem C12_key_order : forall kvs,
  exists body, json_object kvs = [x7b] ++ body ++ [x7d] /\
    body = join [x2c] (map (fun k => x22 :: k ++ [x22; x3a] ++ match blookup k kvs with Some v => v | None => [] end)
                           (sort_tags SortByInt (map fst kvs))).
Proof. exact json_object_order. Qed.
Print Assumptions C12_key_order.

Example C12_ex_escape : json_string [x22; x5c; x01; x3c; xc3; xa9; xe2; x80; xa8] =
  [x22; x5c; x22; x5c; x5c; x5c; x75; x30; x30; x30; x31; x5c; x75; x30; x30; x33; x63; xc3; xa9; x5c; x75; x32; x30; x32; x38; x22].
Proof. vm_compute; reflexivity. Qed.
Example C12_ex_order : json_object [([x31; x30], [x31]); ([x39], [x32]); ([x32], [x33])] =
  [x7b; x22; x32; x22; x3a; x33; x2c; x22; x39; x22; x3a; x32; x2c; x22; x31; x30; x22; x3a; x31; x7d].
Proof. vm_compute; reflexivity. Qed.
