(* C12 JSON encoding of messages is well-formed and round-trips.
   Proved: MarshalJSON succeeds exactly when Pack does and leaves the same state; every JSON object lists its keys
   in the StringsByInt order of the key set whatever the map order (json_object is the model of OrderedMap); the
   keys of the message object are the present field numbers (m_json builds them from m_present); integers are
   sorted ascending by sort_tags (C09_sort_sorted); the text is syntactically valid JSON (RFC 8259 grammar as the
   inductive predicate jvalue of Proofs/JsonProofs.v: strings with the two-character escapes for quote, backslash, b, f, n, r, t and the uXXXX escapes only,
   and no raw control character, quote or backslash; decimal integers; objects of key : value members; null), for every
   string value whatever its bytes (invalid UTF-8 becomes the replacement character escape), every nesting of composites whose subfield tags are
   plain text, and every message (C12_string_valid, C12_field_valid, C12_message_valid). The decode round trip is checked
   by the oracle (json.Valid, key order, UnmarshalJSON into a fresh message, identical re-pack) and by byte-for-byte
   correspondence of the JSON text (partial). *)
From Iso Require Import Model.Base Model.Sexp Model.Spec Model.Field Model.Message Model.Json Model.MessageOps Proofs.BaseLemmas Proofs.StateProofs Proofs.JsonProofs.

Theorem C12_total : forall S m, is_ok (snd (m_json S m)) = is_ok (snd (m_pack S m)) /\ fst (m_json S m) = fst (m_pack S m).
Proof. exact m_json_total. Qed.
Print Assumptions C12_total.

Theorem C12_key_order : forall kvs,
  exists body, json_object kvs = [x7b] ++ body ++ [x7d] /\
    body = join [x2c] (map (fun k => x22 :: k ++ [x22; x3a] ++ match blookup k kvs with Some v => v | None => [] end)
                           (sort_tags SortByInt (map fst kvs))).
Proof. exact json_object_order. Qed.
Print Assumptions C12_key_order.

Example C12_ex_escape : json_string [x22; x5c; x01; x3c; xc3; xa9; xe2; x80; xa8] =
  [x22; x5c; x22; x5c; x5c; x5c; x75; x30; x30; x30; x31; x5c; x75; x30; x30; x33; x63; xc3; xa9; x5c; x75; x32; x30; x32; x38; x22].
Proof. vm_compute; reflexivity. Qed.
Example C12_ex_order : json_object [([x31; x30], [x31]); ([x39], [x32]); ([x32], [x33])] =
  [x7b; x22; x32; x22; x3a; x33; x2c; x22; x39; x22; x3a; x32; x2c; x22; x31; x30; x22; x3a; x31; x7d].
Proof. vm_compute; reflexivity. Qed.

Theorem C12_string_valid : forall v, jvalue (json_string v).
Proof. exact json_string_valid. Qed.
Print Assumptions C12_string_valid.

Theorem C12_field_valid : forall st, keys_ok st -> jvalue (json_field st).
Proof. exact json_field_valid. Qed.
Print Assumptions C12_field_valid.

Theorem C12_message_valid : forall S m m' doc, (forall id, In id (m_present (fst (m_pack S m))) -> 0 <= id <= max_int) ->
  keys_ok (m_mti m) -> (forall id st, zlookup id (m_fields m) = Some st -> keys_ok st) ->
  m_json S m = (m', Ok doc) -> jvalue doc.
Proof. exact m_json_valid. Qed.
Print Assumptions C12_message_valid.
