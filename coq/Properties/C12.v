(* C12 JSON encoding of messages is well-formed and round-trips.
   Proved: MarshalJSON succeeds exactly when Pack does and leaves the same state; every JSON object lists its keys
   in the StringsByInt order of the key set whatever the map order (json_object is the model of OrderedMap); the
   keys of the message object are the present field numbers (m_json builds them from m_present); integers are
   sorted ascending by sort_tags (C09_sort_sorted); the text is syntactically valid JSON (RFC 8259 grammar as the
   inductive predicate jvalue of Proofs/JsonProofs.v: strings with the two-character escapes for quote, backslash, b, f, n, r, t and the uXXXX escapes only,
   and no raw control character, quote or backslash; decimal integers; objects of key : value members; null), for every
   string value whatever its bytes (invalid UTF-8 becomes the replacement character escape), every nesting of composites whose subfield tags are
   plain text, and every message (C12_string_valid, C12_field_valid, C12_message_valid). The decode round trip, on the
   level of parsed documents: the emitted text is the rendering of the document of the state (C12_text_is_document,
   C12_message_text_is_document: strings escaped, integers in decimal, object keys in numeric order), and UnmarshalJSON
   of that document into a new field / a new message of the same specification gives the state back - the same value
   for primitives (binary values through their hexadecimal text), the same set subfields with the same contents at
   every depth for composites, the same MTI, bitmap field, populated set and element contents for messages
   (C12_field_roundtrip, C12_message_roundtrip). Go decodes the members of the message object in map order, the model
   walks a list: for an accepted document with distinct element numbers every arrangement of the members is accepted
   and gives the same message up to the order in which the populated set was filled (C12_decode_order_irrelevant). That encoding/json parses the text to that document is Go's library
   (outside the model): the oracle checks json.Valid, key order, UnmarshalJSON into a fresh message and identical
   re-pack on the library, and the JSON text is compared byte for byte with the model's. *)
From Iso Require Import Model.Base Model.Sexp Model.Padding Model.Encoding Model.Prefix Model.Bitmap Model.Spec Model.Field Model.Message Model.Json Model.MessageOps Proofs.BaseLemmas Proofs.StateProofs Proofs.CompositeProofs Proofs.JsonProofs Proofs.JsonRoundtrip Proofs.JsonOrder.
From Coq Require Import Sorting.Permutation.

Theorem C12_total : forall S m, is_ok (snd (m_json S m)) = is_ok (snd (m_pack S m)) /\ fst (m_json S m) = fst (m_pack S m).
Proof. exact m_json_total. Qed.
Print Assumptions C12_total.

Theorem C12_key_order : forall kvs,
  exists body, json_object kvs = [x7b] ++ body ++ [x7d] /\
    body = join [x2c] (map (fun k => x22 :: k ++ [x22; x3a] ++ match blookup k kvs with Some v => v | None => [] end)
                           (sort_tags SortByInt (map fst kvs))).
Proof. exact json_object_order. Qed.
Print Assumptions C12_key_order.

Example C12_ex_escape : json_string [x22; x5c; x01; x3c; xc3; xa9; xe2; x80; xa8] =
  [x22; x5c; x22; x5c; x5c; x5c; x75; x30; x30; x30; x31; x5c; x75; x30; x30; x33; x63; xc3; xa9; x5c; x75; x32; x30; x32; x38; x22].
Proof. vm_compute; reflexivity. Qed.
Example C12_ex_order : json_object [([x31; x30], [x31]); ([x39], [x32]); ([x32], [x33])] =
  [x7b; x22; x32; x22; x3a; x33; x2c; x22; x39; x22; x3a; x32; x2c; x22; x31; x30; x22; x3a; x31; x7d].
Proof. vm_compute; reflexivity. Qed.

Theorem C12_string_valid : forall v, jvalue (json_string v).
Proof. exact json_string_valid. Qed.
Print Assumptions C12_string_valid.

Theorem C12_field_valid : forall st, keys_ok st -> jvalue (json_field st).
Proof. exact json_field_valid. Qed.
Print Assumptions C12_field_valid.

Theorem C12_message_valid : forall S m m' doc, (forall id, In id (m_present (fst (m_pack S m))) -> 0 <= id <= max_int) ->
  keys_ok (m_mti m) -> (forall id st, zlookup id (m_fields m) = Some st -> keys_ok st) ->
  m_json S m = (m', Ok doc) -> jvalue doc.
Proof. exact m_json_valid. Qed.
Print Assumptions C12_message_valid.

(* ---- the decode round trip ---- *)
Theorem C12_text_is_document : forall st, json_field st = render (doc_of st).
Proof. exact json_field_renders. Qed.
Print Assumptions C12_text_is_document.

Theorem C12_message_text_is_document : forall S m0 m txt, m_json S m0 = (m, Ok txt) ->
  txt = json_object (map (fun kv => (fst kv, render (snd kv))) (mdoc m)).
Proof. exact m_json_renders. Qed.
Print Assumptions C12_message_text_is_document.

Theorem C12_field_roundtrip : forall s, nodup_spec s -> forall st, jdom s st ->
  exists st', json_into s (fresh s) (doc_of st) = (st', Ok tt) /\ equiv s st st'.
Proof. exact json_doc_roundtrip. Qed.
Print Assumptions C12_field_roundtrip.

Theorem C12_message_roundtrip : forall S m, mjdom S m ->
  exists m', m_from_json S (mfresh S) (mdoc m) = (m', Ok tt) /\
    (forall id, zmem id (m_present m') = zmem id (m_present m)) /\
    (In 0 (m_present m) -> m_mti m' = m_mti m) /\ (In 1 (m_present m) -> m_bm m' = m_bm m) /\
    (forall id, In id (m_present m) -> 2 <= id -> exists s x y, zlookup id (ms_fields S) = Some s /\ zlookup id (m_fields m) = Some x /\ zlookup id (m_fields m') = Some y /\ equiv s x y).
Proof. exact m_json_doc_roundtrip. Qed.
Print Assumptions C12_message_roundtrip.

(* the members of an accepted document may come in any order (Go ranges over a map) *)
Theorem C12_decode_order_irrelevant : forall S m l l' m1, Permutation l l' -> NoDup (map kid l) ->
  m_from_json S m l = (m1, Ok tt) -> exists m2, m_from_json S m l' = (m2, Ok tt) /\ meq m1 m2.
Proof. exact from_json_order_irrelevant. Qed.
Print Assumptions C12_decode_order_irrelevant.

(* an instance: a tagged composite holding a numeric and a binary subfield *)
Definition c12 : fspec :=
  FComp (PVar PfASCII 2) 99 (CTag {| tg_len := 2; tg_enc := Some EncASCII; tg_pad := PadLeft x30; tg_sort := SortByInt; tg_skip := false; tg_prefunk := None |})
        [([x31], FPrim {| ps_kind := KNumeric; ps_enc := EncASCII; ps_pref := PVar PfASCII 1; ps_len := 5; ps_pad := PadNone; ps_packer := PkDefault |});
         ([x32], FPrim {| ps_kind := KBinary; ps_enc := EncBinary; ps_pref := PVar PfASCII 1; ps_len := 5; ps_pad := PadNone; ps_packer := PkDefault |})].
Definition st12 : fstate := SComp [[x32]; [x31]] [([x31], SNumeric 42); ([x32], SBinary [xab])].
Example C12_ex : nodup_spec c12 /\ jdom c12 st12 /\ doc_of st12 = JO [([x31], JN 42); ([x32], JS [x41; x42])] /\
  json_into c12 (fresh c12) (doc_of st12) = (SComp [[x31]; [x32]] [([x31], SNumeric 42); ([x32], SBinary [xab])], Ok tt).
Proof.
  split; [|split; [|split; vm_compute; reflexivity]].
  - cbn [nodup_spec c12]. split; [repeat constructor; cbn; intuition discriminate|]. repeat split.
  - cbn [jdom c12 st12]. split; [repeat constructor; cbn; intuition discriminate|]. split.
    + intros t H. apply CompositeLoops.bmem_In in H. cbn [In map fst] in *. destruct H as [<-|[<-|[]]]; split; cbn; tauto.
    + cbn [blookup bytes_eqb Byte.eqb andb]. split; [|split; [|exact I]]; intros _ x Hx; injection Hx as <-; cbn; [unfold two63; lia|exact I].
Qed.
