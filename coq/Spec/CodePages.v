(* Hand-entered reference points of IBM code pages 500 and 1047 (ASCII byte, EBCDIC byte): letters,
   digits and the common punctuation. Entered from the published code page charts, independently of
   the repository's tables; the theorems in Properties/C07.v compare the generated tables with them. *)
From Coq Require Import List Init.Byte.
Import ListNotations.

(* invariant part shared by CP037 / CP500 / CP1047 *)
Definition ebcdic_invariant : list (byte * byte) :=
  [ (* space and punctuation *)
    (x20, x40); (x2e, x4b); (x3c, x4c); (x28, x4d); (x2b, x4e); (x26, x50); (x24, x5b); (x2a, x5c);
    (x29, x5d); (x3b, x5e); (x2d, x60); (x2f, x61); (x2c, x6b); (x25, x6c); (x5f, x6d); (x3e, x6e);
    (x3f, x6f); (x3a, x7a); (x23, x7b); (x40, x7c); (x27, x7d); (x3d, x7e); (x22, x7f);
    (* digits *)
    (x30, xf0); (x31, xf1); (x32, xf2); (x33, xf3); (x34, xf4); (x35, xf5); (x36, xf6); (x37, xf7);
    (x38, xf8); (x39, xf9);
    (* upper case *)
    (x41, xc1); (x42, xc2); (x43, xc3); (x44, xc4); (x45, xc5); (x46, xc6); (x47, xc7); (x48, xc8); (x49, xc9);
    (x4a, xd1); (x4b, xd2); (x4c, xd3); (x4d, xd4); (x4e, xd5); (x4f, xd6); (x50, xd7); (x51, xd8); (x52, xd9);
    (x53, xe2); (x54, xe3); (x55, xe4); (x56, xe5); (x57, xe6); (x58, xe7); (x59, xe8); (x5a, xe9);
    (* lower case *)
    (x61, x81); (x62, x82); (x63, x83); (x64, x84); (x65, x85); (x66, x86); (x67, x87); (x68, x88); (x69, x89);
    (x6a, x91); (x6b, x92); (x6c, x93); (x6d, x94); (x6e, x95); (x6f, x96); (x70, x97); (x71, x98); (x72, x99);
    (x73, xa2); (x74, xa3); (x75, xa4); (x76, xa5); (x77, xa6); (x78, xa7); (x79, xa8); (x7a, xa9);
    (* braces, backslash, tilde, grave *)
    (x7b, xc0); (x7d, xd0); (x5c, xe0); (x7e, xa1); (x60, x79) ].

(* CP500: [ ] ! ^ *)
Definition cp500_ref : list (byte * byte) :=
  ebcdic_invariant ++ [ (x5b, x4a); (x5d, x5a); (x21, x4f); (x5e, x5f) ].

(* CP1047: [ ] ! ^ | *)
Definition cp1047_ref : list (byte * byte) :=
  ebcdic_invariant ++ [ (x5b, xad); (x5d, xbd); (x21, x5a); (x5e, x5f); (x7c, x4f) ].
