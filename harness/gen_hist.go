package main

import (
	"errors"
	"fmt"
	"github.com/moov-io/iso8583"
	iso8583errors "github.com/moov-io/iso8583/errors"
	"strings"
	"unicode/utf8"
)

// value term -> parsed JSON document term, as MarshalJSON would render it (strings must be valid UTF-8)
func valToJdoc(v *Sx) *Sx {
	switch v.Head() {
	case "S":
		b := v.List[1].Hex()
		if !utf8.Valid(b) {
			c := make([]byte, len(b))
			for i, x := range b {
				c[i] = x
				if x >= 0x80 {
					c[i] = 'x'
				}
			}
			b = c
		}
		return L(A("js"), X(b))
	case "N":
		return L(A("jn"), v.List[1])
	case "B":
		return L(A("js"), X([]byte(strings.ToUpper(fmt.Sprintf("%x", v.List[1].Hex())))))
	case "H":
		return L(A("js"), v.List[1])
	case "C":
		var kvs []*Sx
		for _, e := range v.List[1].List {
			kvs = append(kvs, L(e.List[0], valToJdoc(e.List[1])))
		}
		return L(A("jo"), L(kvs...))
	}
	return L(A("js"), X(nil))
}

// a random path into a populated composite value: id.sub.sub
func randomPath(r *Rng, id int, v *Sx) string {
	p := fmt.Sprint(id)
	for v.Head() == "C" && len(v.List[1].List) > 0 && r.Chance(2, 3) {
		e := v.List[1].List[r.Intn(len(v.List[1].List))]
		p += "." + string(e.List[0].Hex())
		v = e.List[1]
	}
	return p
}

// packed bytes of a message built from (id, value) pairs, through the library
func packMsgVals(g *gmsg, vals map[int]*Sx) []byte {
	defer func() { recover() }()
	ops := []*Sx{op("mti", X([]byte("0100")))}
	for _, id := range g.ids {
		if v, ok := vals[id]; ok {
			ops = append(ops, op("setval", I(id), v))
		}
	}
	ops = append(ops, op("pack"))
	out := runMsgOps(g.term, ops)
	last := out[len(out)-1]
	if strings.HasPrefix(last, "ok ") {
		return A(last[3:]).Hex()
	}
	return nil
}

// value with every subfield populated
func genFullValue(r *Rng, n *gnode) *Sx {
	if !n.comp {
		return genPrimValue(r, n)
	}
	var parts []*Sx
	for _, t := range n.order {
		parts = append(parts, L(X([]byte(t)), genFullValue(r, n.subs[t])))
	}
	return L(A("C"), L(parts...))
}

// value that populates one leaf only, along a path of first-choice composites (preferring composite children)
func genSparseValue(r *Rng, n *gnode) *Sx {
	if !n.comp {
		return genPrimValue(r, n)
	}
	pick := n.order[0]
	if n.mode != "pos" {
		var comps []string
		for _, t := range n.order {
			if n.subs[t].comp {
				comps = append(comps, t)
			}
		}
		if len(comps) > 0 {
			pick = comps[r.Intn(len(comps))]
		} else {
			pick = n.order[r.Intn(len(n.order))]
		}
	}
	return L(A("C"), L(L(X([]byte(pick)), genSparseValue(r, n.subs[pick]))))
}

// paths (below the top) of composite subfields that themselves have a composite child
func midPaths(n *gnode, prefix string, depth int, acc *[]string) {
	if !n.comp {
		return
	}
	for _, t := range n.order {
		c := n.subs[t]
		if !c.comp {
			continue
		}
		p := prefix + "." + t
		*acc = append(*acc, p)
		midPaths(c, p, depth+1, acc)
	}
}

// populate everything, unset a subfield path, re-populate sparsely below it: nothing that was unset may come back
func genResurrection(r *Rng, g *gmsg) []*Sx {
	var cands []int
	for _, id := range g.ids {
		var ps []string
		midPaths(g.nodes[id], fmt.Sprint(id), 0, &ps)
		if len(ps) > 0 {
			cands = append(cands, id)
		}
	}
	if len(cands) == 0 {
		return nil
	}
	id := cands[r.Intn(len(cands))]
	// half of the time the candidate with the largest number: elements beyond the first bitmap block are reset by the
	// same rule as the others
	if r.Chance(1, 2) {
		for _, c := range cands {
			if c > id {
				id = c
			}
		}
	}
	node := g.nodes[id]
	var ps []string
	midPaths(node, fmt.Sprint(id), 0, &ps)
	path := ps[r.Intn(len(ps))]
	ops := []*Sx{op("mti", X([]byte("0100"))), op("setval", I(id), genFullValue(r, node)), op("get")}
	if r.Chance(1, 3) {
		ops = append(ops, op("pack"))
	}
	if r.Chance(1, 4) {
		// a successful Unpack of a message without the element: what it held must not come back when a sibling is
		// populated afterwards (the F28 scenario, on every element number)
		if without := packMsgVals(g, map[int]*Sx{}); without != nil {
			var buildS func(n *gnode, segs []string) *Sx
			buildS = func(n *gnode, segs []string) *Sx {
				if len(segs) == 0 || !n.comp {
					return genSparseValue(r, n)
				}
				c, ok := n.subs[segs[0]]
				if !ok {
					return genSparseValue(r, n)
				}
				return L(A("C"), L(L(X([]byte(segs[0])), buildS(c, segs[1:]))))
			}
			ops = append(ops, op("unpack", X(without)), op("get"), op("setval", I(id), buildS(node, strings.Split(path, ".")[1:])), op("get"), op("pack"), op("json"), op("get"))
			return ops
		}
	}
	if r.Chance(1, 3) {
		// instead of unsetting: an Unpack that fails inside the element, then one that succeeds without it - nothing the
		// failed Unpack decoded may come back either
		full := packMsgVals(g, map[int]*Sx{id: genFullValue(r, node)})
		without := packMsgVals(g, map[int]*Sx{})
		var cut []byte
		if full != nil && without != nil && len(full) > 12 {
			// a corruption in the last third that makes the Unpack fail below the top of the element
			for attempt := 0; attempt < 30 && cut == nil; attempt++ {
				m := append([]byte(nil), full...)
				m[len(m)*2/3+r.Intn(len(m)-len(m)*2/3)] = byte(r.Intn(256))
				probe := iso8583.NewMessage(buildMessageSpec(g.term))
				if err := probe.Unpack(append([]byte(nil), m...)); err != nil {
					var ue *iso8583errors.UnpackError
					if errors.As(err, &ue) && len(ue.FieldIDs()) >= 2 {
						cut = m
					}
				}
			}
		}
		if cut != nil && r.Chance(1, 2) {
			// the write follows the failed Unpack at once, into the very subtree in which the Unpack failed: the element
			// keeps what was decoded before the failure (by design, until the next Unpack), but the subfield in which
			// decoding failed was discarded, so nothing of it may show below the written path
			probe := iso8583.NewMessage(buildMessageSpec(g.term))
			var ue *iso8583errors.UnpackError
			if err := probe.Unpack(append([]byte(nil), cut...)); err != nil && errors.As(err, &ue) && len(ue.FieldIDs()) >= 2 && ue.FieldIDs()[0] == fmt.Sprint(id) {
				var buildF func(n *gnode, segs []string) *Sx
				buildF = func(n *gnode, segs []string) *Sx {
					if len(segs) == 0 || !n.comp {
						return genSparseValue(r, n)
					}
					c, ok := n.subs[segs[0]]
					if !ok {
						return genSparseValue(r, n)
					}
					return L(A("C"), L(L(X([]byte(segs[0])), buildF(c, segs[1:]))))
				}
				ops = append(ops, op("unpack", X(cut)), op("get"), op("setval", I(id), buildF(node, ue.FieldIDs()[1:])), op("get"), op("pack"), op("json"), op("get"))
				return ops
			}
		}
		if cut != nil {
			ops = append(ops, op("unpack", X(cut)), op("get"), op("unpack", X(without)), op("get"))
			var build0 func(n *gnode, segs []string) *Sx
			build0 = func(n *gnode, segs []string) *Sx {
				if len(segs) == 0 || !n.comp {
					return genSparseValue(r, n)
				}
				c, ok := n.subs[segs[0]]
				if !ok {
					return genSparseValue(r, n)
				}
				return L(A("C"), L(L(X([]byte(segs[0])), build0(c, segs[1:]))))
			}
			ops = append(ops, op("setval", I(id), build0(node, strings.Split(path, ".")[1:])), op("get"), op("pack"), op("json"), op("get"))
			return ops
		}
	}
	ops = append(ops, op("unsetp", X([]byte(path))), op("get"))
	// re-populate along the unset path: walk the value down the path, then go sparse
	var build func(n *gnode, segs []string) *Sx
	build = func(n *gnode, segs []string) *Sx {
		if len(segs) == 0 || !n.comp {
			return genSparseValue(r, n)
		}
		c, ok := n.subs[segs[0]]
		if !ok {
			return genSparseValue(r, n)
		}
		return L(A("C"), L(L(X([]byte(segs[0])), build(c, segs[1:]))))
	}
	segs := strings.Split(path, ".")[1:]
	ops = append(ops, op("setval", I(id), build(node, segs)), op("get"), op("pack"), op("json"), op("get"))
	return ops
}

func genHistory(r *Rng, g *gmsg, n int) []*Sx {
	var ops []*Sx
	observe := func() { ops = append(ops, op("get")) }
	for i := 0; i < n; i++ {
		id := g.ids[r.Intn(len(g.ids))]
		node := g.nodes[id]
		switch r.Intn(14) {
		case 0:
			ops = append(ops, op("mti", X([]byte(Pick(r, []string{"0100", "0200", "0810"})))))
		case 1, 2:
			ops = append(ops, op("setval", I(id), genValue(r, node)))
		case 3:
			if !node.comp {
				v := genPrimValue(r, node)
				raw, ok := refRaw(v)
				if ok {
					ops = append(ops, op("field", I(id), X(raw)))
				}
			} else if b := packedOf(node.term, genValue(r, node)); b != nil {
				// SetBytes of a composite takes the body without the prefix
				f := buildField(node.term)
				applyVal(f, genValue(r, node))
				if body, err := f.Bytes(); err == nil {
					ops = append(ops, op("field", I(id), X(body)))
				}
			}
		case 4:
			var kvs []*Sx
			for _, jid := range g.ids {
				if r.Chance(1, 2) {
					kvs = append(kvs, L(X([]byte(fmt.Sprint(jid))), valToJdoc(genValue(r, g.nodes[jid]))))
				}
			}
			ops = append(ops, op("fromjson", L(A("jo"), L(kvs...))))
		case 5, 6:
			vals := map[int]*Sx{}
			for _, uid := range g.ids {
				if r.Chance(1, 2) {
					vals[uid] = genValue(r, g.nodes[uid])
				}
			}
			if b := packMsgVals(g, vals); b != nil {
				ops = append(ops, op("unpack", X(b)))
			}
		case 7:
			ops = append(ops, op("unset", I(id)))
		case 8:
			ops = append(ops, op("unsetp", X([]byte(randomPath(r, id, genValue(r, node))))))
		case 9:
			ops = append(ops, op("pack"))
		case 10:
			ops = append(ops, op("json"))
		case 11:
			ops = append(ops, op("clone"))
		case 12:
			ops = append(ops, op("cloneorig"))
		case 13:
			ops = append(ops, op("bitmap"))
		}
		observe()
	}
	ops = append(ops, op("pack"), op("json"), op("get"))
	return ops
}

func init() {
	generators["hist"] = func(r *Rng, tier string, emit func(*Sx)) {
		n := 1200
		if tier == "thorough" {
			n = 30000
		}
		for i := 0; i < n; i++ {
			g := genMsg(r, false)
			if len(g.ids) == 0 {
				continue
			}
			emit(L(A("msg"), g.term, L(genHistory(r, g, 2+r.Intn(7))...)))
			if i%4 == 0 {
				// the failed-write check of the C14 oracle runs on this specification (the executors see a no-op)
				emit(L(A("msg"), g.term, L(op("note", A("failedwrite")))))
			}
			if i%3 == 0 {
				if ops := genResurrection(r, g); ops != nil {
					emit(L(A("msg"), g.term, L(ops...)))
				}
			}
		}
		// exhaustive short sequences over a 14-letter alphabet on a fixed small spec with a nested composite
		spec, err := parseSx("(M (P String ASCII ASCII.Fixed 4 N x00 D) (8 1 Binary Binary.Fixed) ((2 (P String ASCII ASCII.LL 19 N x00 D)) (3 (P Numeric ASCII ASCII.Fixed 6 L x30 D)) (55 (C ASCII.LLL 999 (T 0 BerTag N x00 ByHex 1 nil) ((x3941 (P Hex Binary BerTLV 3 N x00 D)) (x35463241 (P Hex Binary BerTLV 2 N x00 D))))) (70 (C ASCII.LL 99 (T 2 ASCII L x30 ByInt 0 nil) ((x31 (P String ASCII ASCII.LL 5 N x00 D)) (x32 (C ASCII.LL 40 (T 0 nil N x00 ByInt 0 nil) ((x31 (P String ASCII ASCII.L 3 N x00 D)) (x32 (P Numeric ASCII ASCII.L 4 N x00 D))))))))))")
		if err != nil {
			panic(err)
		}
		p := func(s string) *Sx {
			x, err := parseSx(s)
			if err != nil {
				panic(s)
			}
			return x
		}
		full := packedOf2(spec, []*Sx{p("(mti x30323030)"), p("(setval 2 (S x34323432))"), p("(setval 70 (C ((x31 (S x6162)) (x32 (C ((x31 (S x7a)) (x32 (N 7))))))))")})
		small := packedOf2(spec, []*Sx{p("(mti x30313030)"), p("(setval 3 (N 5))")})
		alphabet := []*Sx{
			p("(mti x30313030)"),
			p("(field 2 x31323334)"),
			p("(setval 3 (N 42))"),
			p("(setval 55 (C ((x3941 (H x323130373230)))))"),
			p("(setval 70 (C ((x31 (S x6b)) (x32 (C ((x32 (N 9))))))))"),
			p("(fromjson (jo ((x32 (js x3939)) (x3730 (jo ((x31 (js x71))))))))"),
			op("unpack", X(full)),
			op("unpack", X(small)),
			p("(unset 2)"),
			p("(unset 70)"),
			p("(unsetp x37302e32)"),
			p("(unsetp x37302e322e31)"),
			p("(pack)"),
			p("(clone)"),
		}
		maxLen := 3
		if tier == "thorough" {
			maxLen = 5
		}
		var rec func(cur []*Sx)
		rec = func(cur []*Sx) {
			if len(cur) > 0 {
				var ops []*Sx
				for _, o := range cur {
					ops = append(ops, o, op("get"))
				}
				ops = append(ops, op("pack"), op("json"), op("get"))
				emit(L(A("msg"), spec, L(ops...)))
			}
			if len(cur) < maxLen {
				for _, o := range alphabet {
					rec(append(append([]*Sx{}, cur...), o))
				}
			}
		}
		rec(nil)
	}
}

func packedOf2(spec *Sx, ops []*Sx) []byte {
	out := runMsgOps(spec, append(ops, op("pack")))
	last := out[len(out)-1]
	if strings.HasPrefix(last, "ok ") {
		return A(last[3:]).Hex()
	}
	panic("fixed history spec does not pack: " + last)
}
