package main

import (
	"bytes"
	"encoding/hex"
	"fmt"
	"sort"
	"strconv"
	"strings"

	"github.com/moov-io/iso8583"
	"github.com/moov-io/iso8583/encoding"
)

// Independent reference encoder written from the text of property C03 (and docs/): it shares no code
// with the library's pack path. Only the two EBCDIC code tables are taken from the library (C07 is
// about them). ok=false: the reference defines no output for this (spec, value).

func refEncode(enc string, v []byte) ([]byte, bool) {
	switch enc {
	case "ASCII":
		for _, b := range v {
			if b > 127 {
				return nil, false
			}
		}
		return v, true
	case "Binary":
		return v, true
	case "BCD", "LBCD":
		d := append([]byte(nil), v...)
		for _, b := range d {
			if b < '0' || b > '9' {
				return nil, false
			}
		}
		if len(d)%2 == 1 {
			if enc == "BCD" {
				d = append([]byte{'0'}, d...)
			} else {
				d = append(d, '0')
			}
		}
		out := make([]byte, len(d)/2)
		for i := range out {
			out[i] = (d[2*i]-'0')<<4 | (d[2*i+1] - '0')
		}
		return out, true
	case "Hex":
		return []byte(strings.ToUpper(hex.EncodeToString(v))), true
	case "HexToBytes", "BerTag":
		out, err := hex.DecodeString(string(v))
		return out, err == nil
	case "EBCDIC":
		out, err := encoding.EBCDIC.Encode(v)
		return out, err == nil
	case "EBCDIC1047":
		for _, b := range v {
			if b > 127 {
				return nil, false
			}
		}
		out, err := encoding.EBCDIC1047.Encode(v)
		return out, err == nil
	}
	return nil, false
}

func refPrefix(pref string, L, n int) ([]byte, bool) {
	if pref == "BerTLV" {
		if L != 0 && n > L {
			return nil, false
		}
		if n <= 127 {
			return []byte{byte(n)}, true
		}
		var be []byte
		for v := n; v > 0; v >>= 8 {
			be = append([]byte{byte(v)}, be...)
		}
		return append([]byte{0x80 | byte(len(be))}, be...), true
	}
	s := shapeOf(pref)
	if s.fixed {
		return []byte{}, n == L
	}
	if n > L || n > s.capacity() {
		return nil, false
	}
	dec := fmt.Sprintf("%0*d", s.digits, n)
	switch s.fam {
	case "ASCII":
		return []byte(dec), true
	case "EBCDIC", "EBCDIC1047":
		out := make([]byte, len(dec))
		for i := range dec {
			out[i] = 0xF0 + dec[i] - '0'
		}
		return out, true
	case "BCD":
		return refEncode("BCD", []byte(dec))
	case "Binary":
		out := make([]byte, s.digits)
		for i, v := s.digits-1, n; i >= 0; i, v = i-1, v>>8 {
			out[i] = byte(v)
		}
		return out, true
	case "Hex":
		return []byte(strings.ToUpper(fmt.Sprintf("%0*x", 2*s.digits, n))), true
	}
	return nil, false
}

func refPad(k string, pb byte, v []byte, L int) []byte {
	if k == "N" || len(v) >= L {
		return v
	}
	p := bytes.Repeat([]byte{pb}, L-len(v))
	if k == "L" {
		return append(p, v...)
	}
	return append(append([]byte(nil), v...), p...)
}

func refRaw(v *Sx) ([]byte, bool) {
	switch v.Head() {
	case "S", "B":
		return v.List[1].Hex(), true
	case "N":
		return []byte(strconv.Itoa(v.List[1].Int())), true
	case "H":
		out, err := hex.DecodeString(string(v.List[1].Hex()))
		return out, err == nil
	}
	return nil, false
}

func refBitmapBytes(B int, ids []int, blocks int, enc string) ([]byte, bool) {
	data := make([]byte, B*blocks)
	for _, id := range ids {
		if id < 1 || id > 8*len(data) {
			return nil, false
		}
		data[(id-1)/8] |= 0x80 >> uint((id-1)%8)
	}
	for b := 0; b < blocks-1; b++ {
		data[b*B] |= 0x80
	}
	return refEncode(enc, data)
}

func refSort(name string, tags []string) []string {
	out := append([]string(nil), tags...)
	num := func(s string) (int, bool) {
		switch name {
		case "ByInt":
			n, err := strconv.Atoi(s)
			return n, err == nil
		case "ByHex":
			n, err := strconv.ParseUint(s, 16, 62)
			return int(n), err == nil
		}
		return 0, false
	}
	sort.SliceStable(out, func(i, j int) bool {
		a, oka := num(out[i])
		b, okb := num(out[j])
		if oka && okb {
			return a < b
		}
		return out[i] < out[j]
	})
	return out
}

func refField(spec, v *Sx) ([]byte, bool) {
	a := spec.Args()
	switch spec.Head() {
	case "P":
		raw, ok := refRaw(v)
		if !ok || map[string]string{"S": "String", "N": "Numeric", "B": "Binary", "H": "Hex"}[v.Head()] != a[0].Atom || a[6].Atom != "D" {
			return nil, false
		}
		padded := refPad(a[4].Atom, a[5].Hex()[0], raw, a[3].Int())
		body, ok := refEncode(a[1].Atom, padded)
		if !ok {
			return nil, false
		}
		pre, ok := refPrefix(a[2].Atom, a[3].Int(), len(padded))
		if !ok {
			return nil, false
		}
		return append(pre, body...), true
	case "C":
		if v.Head() != "C" {
			return nil, false
		}
		subs := map[string]*Sx{}
		for _, s := range a[3].List {
			subs[string(s.List[0].Hex())] = s.List[1]
		}
		vals := map[string]*Sx{}
		var tags []string
		for _, e := range v.List[1].List {
			t := string(e.List[0].Hex())
			if _, ok := subs[t]; !ok {
				return nil, false
			}
			if _, dup := vals[t]; !dup {
				tags = append(tags, t)
			}
			vals[t] = e.List[1]
		}
		var body []byte
		mode := a[2]
		m := mode.Args()
		if mode.Head() == "B" {
			tags = refSort("ByInt", tags)
			var ids []int
			for _, t := range tags {
				n, err := strconv.Atoi(t)
				if err != nil {
					return nil, false
				}
				ids = append(ids, n)
			}
			bm, ok := refBitmapBytes(m[0].Int(), ids, 1, m[1].Atom)
			if !ok {
				return nil, false
			}
			body = bm
			for _, t := range tags {
				fb, ok := refField(subs[t], vals[t])
				if !ok {
					return nil, false
				}
				body = append(body, fb...)
			}
		} else {
			tags = refSort(m[4].Atom, tags)
			for _, t := range tags {
				if m[1].Atom != "nil" {
					tw, ok := refEncode(m[1].Atom, refPad(m[2].Atom, m[3].Hex()[0], []byte(t), m[0].Int()))
					if !ok {
						return nil, false
					}
					body = append(body, tw...)
				}
				fb, ok := refField(subs[t], vals[t])
				if !ok {
					return nil, false
				}
				body = append(body, fb...)
			}
		}
		pre, ok := refPrefix(a[0].Atom, a[1].Int(), len(body))
		if !ok {
			return nil, false
		}
		return append(pre, body...), true
	}
	return nil, false
}

// refMessage: layout of a message given its MTI bytes and the (id, value) pairs of its ops
func refMessage(spec *Sx, ops []*Sx) ([]byte, bool) {
	a := spec.Args()
	var mti []byte
	vals := map[int]*Sx{}
	for _, o := range ops {
		switch o.Head() {
		case "mti":
			mti = o.List[1].Hex()
		case "setval":
			vals[o.List[1].Int()] = o.List[2]
		case "field":
			return nil, false
		}
	}
	if mti == nil {
		return nil, false
	}
	mtiV := L(A("S"), X(mti))
	if a[0].List[1].Atom == "Numeric" {
		n, err := strconv.Atoi(string(mti))
		if err != nil {
			return nil, false
		}
		mtiV = L(A("N"), I(n))
	}
	out, ok := refField(a[0], mtiV)
	if !ok {
		return nil, false
	}
	B, auto, enc := a[1].List[0].Int(), a[1].List[1].Bool(), a[1].List[2].Atom
	if B == 0 {
		B = 8 // Length 0 is the default block of 8 bytes
	}
	var ids []int
	for id := range vals {
		if id < 2 || (auto && id%(8*B) == 1) {
			return nil, false
		}
		ids = append(ids, id)
	}
	sort.Ints(ids)
	blocks := 1
	if len(ids) > 0 {
		need := (ids[len(ids)-1] + 8*B - 1) / (8 * B)
		if auto {
			blocks = need
		} else if need > 1 {
			return nil, false
		}
	}
	bm, ok := refBitmapBytes(B, ids, blocks, enc)
	if !ok {
		return nil, false
	}
	out = append(out, bm...)
	specs := map[int]*Sx{}
	for _, ft := range a[2].List {
		specs[ft.List[0].Int()] = ft.List[1]
	}
	for _, id := range ids {
		fb, ok := refField(specs[id], vals[id])
		if !ok {
			return nil, false
		}
		out = append(out, fb...)
	}
	return out, true
}

func init() {
	regCheck("C03", "fld", func(a []*Sx) (bool, []Finding) {
		v := firstOpArg(a[1].List, "set")
		if v == nil {
			return false, nil
		}
		if firstOpArg(a[1].List, "unsetp") != nil {
			// a history on one object (pack, unset a subfield, pack again): what the object packs to at the end is the
			// reference layout of what it then holds
			defer func() { recover() }()
			_, f := runFldOpsOn(a[0], buildField(a[0]), a[1].List)
			packed, err := f.Pack()
			cur, perr := parseSx(showVal(f))
			if err != nil || perr != nil {
				return false, nil
			}
			if ref, defined := refField(a[0], cur); defined && !bytes.Equal(ref, packed) {
				return true, []Finding{{"c03-repack-differs", fmt.Sprintf("after pack / unset / pack the object packs to %x, the reference layout of what it holds is %x", clipB(packed), clipB(ref))}}
			}
			return true, nil
		}
		ref, defined := refField(a[0], v)
		f := buildField(a[0])
		applyVal(f, v)
		packed, err := f.Pack()
		var fs []Finding
		if err == nil && (!defined || !bytes.Equal(ref, packed)) {
			fs = append(fs, Finding{"c03-pack-differs", fmt.Sprintf("Pack produced %x, the reference layout is %x (defined=%v)", clipB(packed), clipB(ref), defined)})
		}
		if defined {
			g := buildField(a[0])
			n, uerr := g.Unpack(append([]byte(nil), ref...))
			if uerr != nil || n != len(ref) {
				fs = append(fs, Finding{"c03-layout-rejected", "bytes laid out by the reference encoder are not unpacked (exactly)"})
			} else if err == nil && showVal(g) != showVal(f) {
				fs = append(fs, Finding{"c03-layout-value", "bytes laid out by the reference encoder unpack to different values"})
			}
		}
		return defined, fs
	})
	regCheck("C03", "msg", func(a []*Sx) (bool, []Finding) {
		if firstOpArg(a[1].List, "mti") == nil {
			return false, nil
		}
		if len(unrepresentableIDs(a[0])) > 0 {
			return false, nil
		}
		var setOps []*Sx
		for _, o := range a[1].List {
			if o.Head() == "mti" || o.Head() == "setval" || o.Head() == "field" {
				setOps = append(setOps, o)
			} else {
				break
			}
		}
		ref, defined := refMessage(a[0], setOps)
		m, ms := msgFromOps(a[0], setOps)
		packed, err := m.Pack()
		var fs []Finding
		if err == nil && (!defined || !bytes.Equal(ref, packed)) {
			fs = append(fs, Finding{"c03-msg-pack-differs", fmt.Sprintf("Pack produced %x, the reference layout is %x (defined=%v)", clipB(packed), clipB(ref), defined)})
		}
		if defined {
			g := iso8583.NewMessage(ms)
			if uerr := g.Unpack(append([]byte(nil), ref...)); uerr != nil {
				fs = append(fs, Finding{"c03-msg-layout-rejected", "a message laid out by the reference encoder is not unpacked: " + safeErr(uerr)})
			} else if err == nil && msgObserve(g) != msgObserve(m) {
				fs = append(fs, Finding{"c03-msg-layout-value", "a message laid out by the reference encoder unpacks to different values"})
			}
		}
		return defined, fs
	})
}

func clipB(b []byte) []byte {
	if len(b) > 48 {
		return b[:48]
	}
	return b
}
