package main

import (
	"fmt"
	"reflect"
	"strings"

	"github.com/moov-io/iso8583/encoding"
	"github.com/moov-io/iso8583/field"
)

// genTLVComp: a tagged (fixed-width) or BER-TLV composite with at least `minSubs` subfields
func genTLVComp(r *Rng, minSubs int) *gnode {
	for {
		n := genComp(r, 1)
		if (n.mode == "tag" || n.mode == "ber") && len(n.order) >= minSubs {
			return n
		}
	}
}

func permutations(n int) [][]int {
	if n == 0 {
		return [][]int{{}}
	}
	var out [][]int
	for _, p := range permutations(n - 1) {
		for i := 0; i <= len(p); i++ {
			q := append(append(append([]int{}, p[:i]...), n-1), p[i:]...)
			out = append(out, q)
		}
	}
	return out
}

func init() {
	generators["tlv"] = func(r *Rng, tier string, emit func(*Sx)) {
		thorough := tier == "thorough"
		nspecs := 250
		maxPerm := 4
		if thorough {
			nspecs, maxPerm = 2500, 6
		}
		for i := 0; i < nspecs; i++ {
			n := genTLVComp(r, 2)
			// a value with every subfield (or a random subset) present
			var parts []*Sx
			var present []string
			for _, t := range n.order {
				if r.Chance(4, 5) {
					present = append(present, t)
					parts = append(parts, L(X([]byte(t)), genValue(r, n.subs[t])))
				}
			}
			if len(present) < 2 {
				continue
			}
			v := L(A("C"), L(parts...))
			f := buildField(n.term).(*field.Composite)
			applyVal(f, v)
			expect, _ := parseSx(showVal(f))
			// elements, from the pieces: encoded padded tag ++ packed subfield
			ts := f.Spec().Tag
			var elems [][]byte
			ok := true
			for _, t := range present {
				tb := []byte(t)
				if ts.Pad != nil {
					tb = ts.Pad.Pad(tb, ts.Length)
				}
				tw, err := ts.Enc.Encode(tb)
				sp, err2 := f.GetSubfields()[t].Pack()
				if err != nil || err2 != nil {
					ok = false
					break
				}
				elems = append(elems, append(append([]byte(nil), tw...), sp...))
			}
			if !ok {
				continue
			}
			wrap := func(body []byte) []byte {
				pre, err := f.Spec().Pref.EncodeLength(f.Spec().Length, len(body))
				if err != nil {
					return nil
				}
				return append(pre, body...)
			}
			join := func(order []int, extra []byte, at int) []byte {
				var body []byte
				for i, k := range order {
					if i == at {
						body = append(body, extra...)
					}
					body = append(body, elems[k]...)
				}
				if at == len(order) {
					body = append(body, extra...)
				}
				return body
			}
			ident := make([]int, len(elems))
			for i := range ident {
				ident[i] = i
			}
			if full := wrap(join(ident, nil, -1)); full != nil {
				emit(L(A("fld"), n.term, L(op("set", v), op("pack"), op("note", L(A("c09"), A("canon"), X(full))))))
			}
			// permutations
			var perms [][]int
			if len(elems) <= maxPerm {
				perms = permutations(len(elems))
			} else {
				for k := 0; k < 24; k++ {
					p := append([]int{}, ident...)
					for i := len(p) - 1; i > 0; i-- {
						j := r.Intn(i + 1)
						p[i], p[j] = p[j], p[i]
					}
					perms = append(perms, p)
				}
			}
			for _, p := range perms {
				if full := wrap(join(p, nil, -1)); full != nil {
					emit(L(A("fld"), n.term, L(op("unpack", X(full)), op("get"), op("note", L(A("c09"), A("perm"), expect)))))
				}
			}
			// unknown elements at every position
			skipOn := n.term.List[3].List[6].Bool() && (n.mode == "ber" || n.term.List[3].List[7].Atom != "nil")
			unkPref := "BerTLV"
			if n.mode == "tag" && n.term.List[3].List[7].Atom != "nil" {
				unkPref = n.term.List[3].List[7].Atom
			}
			for at := 0; at <= len(elems); at++ {
				var tagWire []byte
				var tagName string
				if n.mode == "ber" {
					for {
						tagName = berTag(r)
						if len(tagName) <= 6 {
							if _, exists := n.subs[tagName]; !exists {
								break
							}
						}
					}
					tagWire = A("x" + strings.ToLower(tagName)).Hex()
				} else {
					// an unused fixed-width tag of the same shape as the defined ones
					tried := 0
					for {
						cand := n.order[r.Intn(len(n.order))]
						b := []byte(cand)
						b[len(b)-1] = Pick(r, []byte("0123456789ABCDEF"))
						if n.term.List[3].List[2].Atom == "Binary" {
							b[len(b)-1] = byte('A' + r.Intn(26))
						}
						tagName = string(b)
						tried++
						if _, exists := n.subs[tagName]; !exists || tried > 50 {
							break
						}
					}
					if _, exists := n.subs[tagName]; exists {
						continue
					}
					tb := []byte(tagName)
					if ts.Pad != nil {
						tb = ts.Pad.Pad(tb, ts.Length)
					}
					var err error
					tagWire, err = ts.Enc.Encode(tb)
					if err != nil {
						continue
					}
					if ts.Pad != nil {
						tagName = string(ts.Pad.Unpad([]byte(tagName)))
					}
				}
				vlen := Pick(r, []int{0, 1, 5, 127, 128, 200})
				if shapeOf(unkPref).fam != "BerTLV" && vlen > shapeOf(unkPref).capacity() {
					vlen = shapeOf(unkPref).capacity()
				}
				val := r.Bytes(vlen)
				lp, err := prefixers[unkPref].EncodeLength(1<<30, vlen)
				if err != nil {
					continue
				}
				extra := append(append(append([]byte(nil), tagWire...), lp...), val...)
				full := wrap(join(ident, extra, at))
				if full == nil {
					continue
				}
				if skipOn {
					emit(L(A("fld"), n.term, L(op("unpack", X(full)), op("get"), op("note", L(A("c09"), A("skip"), expect)))))
					// the same element announcing more bytes than remain (placed last)
					lp2, err := prefixers[unkPref].EncodeLength(1<<30, vlen+1+r.Intn(3))
					if err == nil && at == len(elems) {
						over := append(append(append([]byte(nil), tagWire...), lp2...), val...)
						if f2 := wrap(join(ident, over, at)); f2 != nil {
							emit(L(A("fld"), n.term, L(op("unpack", X(f2)), op("get"), op("note", L(A("c09"), A("overrun"), A("x"))))))
						}
					}
				} else {
					emit(L(A("fld"), n.term, L(op("unpack", X(full)), op("get"), op("note", L(A("c09"), A("unknown"), X([]byte(tagName)))))))
				}
			}
		}
	}

	generators["trunc"] = func(r *Rng, tier string, emit func(*Sx)) {
		nm := 250
		if tier == "thorough" {
			nm = 4000
		}
		for i := 0; i < nm; i++ {
			g := genMsg(r, false)
			ops := []*Sx{op("mti", X([]byte("0100")))}
			for _, id := range g.ids {
				if r.Chance(1, 5) {
					continue
				}
				ops = append(ops, op("setval", I(id), genValue(r, g.nodes[id])))
			}
			m, _ := func() (mm interface{}, err error) {
				defer func() { recover() }()
				a, _ := msgFromOps(g.term, ops)
				return a, nil
			}()
			if m == nil {
				continue
			}
			msg, _ := msgFromOps(g.term, ops)
			packed, err := msg.Pack()
			if err != nil {
				continue
			}
			// byte ranges from the lengths of the separately packed elements
			type rng struct {
				id, start, end int
				val            string
			}
			var ranges []rng
			pos := 0
			fields := msg.GetFields()
			for _, id := range sortedIDs(fields) {
				var pl []byte
				if id == 1 {
					pl, _ = msg.Bitmap().Pack()
				} else {
					pl, _ = fields[id].Pack()
				}
				v := ""
				if id != 1 {
					v = showVal(fields[id])
				}
				ranges = append(ranges, rng{id, pos, pos + len(pl), v})
				pos += len(pl)
			}
			if pos != len(packed) {
				continue
			}
			offsets := []int{}
			for o := 0; o < len(packed); o++ {
				if len(packed) <= 70 || tier == "thorough" || r.Chance(40, len(packed)) {
					offsets = append(offsets, o)
				}
			}
			for _, o := range offsets {
				owner := -1
				var prior []*Sx
				for _, rg := range ranges {
					if o >= rg.start && o < rg.end {
						owner = rg.id
						break
					}
					if rg.id != 1 && rg.end > rg.start {
						vt, _ := parseSx(rg.val)
						prior = append(prior, L(I(rg.id), vt))
					}
				}
				if owner < 0 {
					continue
				}
				emit(L(A("msg"), g.term, L(op("unpack", X(packed[:o])), op("get"), op("note", L(A("c19"), A(fmt.Sprint(owner)), L(prior...))))))
			}
			// corruption of the length prefix of a subfield of a tagged composite: the failure lies inside that subfield,
			// so the id path continues with its tag
			for _, rg := range ranges {
				cf, ok := fields[rg.id].(*field.Composite)
				if !ok {
					continue
				}
				func() {
					defer func() { recover() }()
					sp := cf.Spec()
					body, err := cf.Bytes()
					if err != nil {
						return
					}
					bodyStart := rg.end - len(body)
					_ = sp
					var prior []*Sx
					for _, pr := range ranges {
						if pr.id == rg.id {
							break
						}
						if pr.id != 1 && pr.end > pr.start {
							vt, _ := parseSx(pr.val)
							prior = append(prior, L(I(pr.id), vt))
						}
					}
					// walk the tagged composite (and tagged composites nested in it): for every primitive subfield corrupt the
					// first byte of its length prefix; the expected id path is the element followed by the tags down to it
					emitted := 0
					var walk func(c *field.Composite, bodyStart int, path []string)
					walk = func(c *field.Composite, bodyStart int, path []string) {
						// all three modes (round 8, C19-i): tagged composites carry the encoded tag before each subfield,
						// positional ones nothing, bitmapped ones their fixed bitmap first and then the subfields in id order
						csp := c.Spec()
						csubs := c.GetSubfields()
						var tags []string
						for t := range csubs {
							tags = append(tags, t)
						}
						pos := bodyStart
						if csp.Bitmap != nil {
							tags = refSort("ByInt", tags)
							w := csp.Bitmap.Spec().Length
							if w == 0 {
								w = 8
							}
							if csp.Bitmap.Spec().Enc == encoding.BytesToASCIIHex {
								w *= 2
							}
							pos += w
						} else if csp.Tag != nil && csp.Tag.Sort != nil {
							csp.Tag.Sort(tags)
						} else {
							return
						}
						for _, t := range tags {
							var tw []byte
							if csp.Bitmap == nil && csp.Tag.Enc != nil {
								tb := []byte(t)
								if csp.Tag.Pad != nil {
									tb = csp.Tag.Pad.Pad(tb, csp.Tag.Length)
								}
								var err error
								tw, err = csp.Tag.Enc.Encode(tb)
								if err != nil {
									return
								}
							}
							sub := csubs[t]
							sp2, err := sub.Pack()
							if err != nil {
								return
							}
							dataStart := pos + len(tw)
							pos = dataStart + len(sp2)
							if len(sp2) == 0 {
								continue
							}
							if sc, isComp := sub.(*field.Composite); isComp {
								if sb, err := sc.Bytes(); err == nil && len(path) < 3 {
									walk(sc, dataStart+len(sp2)-len(sb), append(append([]string(nil), path...), t))
								}
								continue
							}
							for _, cand := range []byte{0x39, 0xf9, 0x99, 0x7f, 0xff, 0x84} {
								if packed[dataStart] == cand {
									continue
								}
								mut := append([]byte(nil), packed...)
								mut[dataStart] = cand
								probe := reflect.New(reflect.TypeOf(sub).Elem()).Interface().(field.Field)
								probe.SetSpec(sub.Spec())
								if _, err := probe.Unpack(mut[dataStart:rg.end]); err == nil {
									continue
								}
								var tagPath []*Sx
								for _, pt := range append(append([]string(nil), path...), t) {
									tagPath = append(tagPath, X([]byte(pt)))
								}
								emit(L(A("msg"), g.term, L(op("unpack", X(mut)), op("get"), op("note", L(A("c19p"), A(fmt.Sprint(rg.id)), L(tagPath...), L(prior...))))))
								emitted++
								break
							}
						}
					}
					walk(cf, bodyStart, nil)
					_ = emitted
				}()
			}
		}
	}
}
