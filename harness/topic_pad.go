package main

import (
	"bytes"

	"github.com/moov-io/iso8583/padding"
)

func mkPadder(kind string, pb byte) padding.Padder {
	switch kind {
	case "L":
		return padding.Left(rune(pb))
	case "R":
		return padding.Right(rune(pb))
	}
	return padding.None
}

// sliceWithSpare returns a slice holding d whose spare capacity holds the sentinel bytes.
func sliceWithSpare(d, spare []byte) []byte {
	buf := make([]byte, len(d)+len(spare))
	copy(buf, d)
	copy(buf[len(d):], spare)
	return buf[:len(d):len(buf)]
}

func init() {
	executors["pad"] = func(a []*Sx) string {
		p := mkPadder(a[0].Atom, a[1].Hex()[0])
		d, spare := a[3].Hex(), a[4].Hex()
		buf := sliceWithSpare(d, spare)
		res := p.Pad(buf, a[2].Int())
		out := xh(res) + " " + xh(buf[len(d):cap(buf)])
		if !bytes.Equal(buf[:len(d)], d) {
			out += " inputmod"
		}
		return out
	}
	executors["unpad"] = func(a []*Sx) string {
		p := mkPadder(a[0].Atom, a[1].Hex()[0])
		d := a[2].Hex()
		buf := sliceWithSpare(d, []byte("ZZZZ"))
		res := p.Unpad(buf)
		out := xh(res)
		if !bytes.Equal(buf[:len(d)], d) || string(buf[len(d):cap(buf)]) != "ZZZZ" {
			out += " inputmod"
		}
		return out
	}
	generators["pad"] = func(r *Rng, tier string, emit func(*Sx)) {
		padBytes := []byte{0x00, 0x20, 0x30, 0x46, 0x7f}
		if tier == "thorough" {
			padBytes = nil
			for b := 0; b < 0x80; b++ {
				padBytes = append(padBytes, byte(b))
			}
		} else {
			padBytes = append(padBytes, byte(r.Intn(0x80)), byte(r.Intn(0x80)))
		}
		sent := []byte("XYZWVUTS")
		// exhaustive: values up to length 3 over a 4-letter alphabet containing the pad, targets 0..6
		for _, pb := range padBytes {
			alpha := []byte{pb, 'a', 0x80 | pb, 0xff}
			var vals [][]byte
			vals = append(vals, []byte{})
			for n := 1; n <= 3; n++ {
				total := 1
				for i := 0; i < n; i++ {
					total *= 4
				}
				for k := 0; k < total; k++ {
					v := make([]byte, n)
					kk := k
					for i := 0; i < n; i++ {
						v[i] = alpha[kk%4]
						kk /= 4
					}
					vals = append(vals, v)
				}
			}
			for _, kind := range []string{"L", "R", "N"} {
				if kind == "N" && pb != padBytes[0] {
					continue
				}
				for _, v := range vals {
					for t := 0; t <= 6; t++ {
						emit(L(A("pad"), A(kind), X([]byte{pb}), I(t), X(v), X(sent[:r.Intn(9)])))
					}
					emit(L(A("unpad"), A(kind), X([]byte{pb}), X(v)))
				}
			}
		}
		// random values (arbitrary bytes, so also invalid UTF-8), random targets incl. negative and far larger
		n := 600
		if tier == "thorough" {
			n = 20000
		}
		for i := 0; i < n; i++ {
			pb := byte(r.Intn(0x80))
			kind := Pick(r, []string{"L", "R", "N"})
			ln := r.Intn(40)
			if r.Chance(1, 10) {
				ln = r.Intn(2001)
			}
			v := r.Bytes(ln)
			if r.Chance(1, 2) {
				// mostly pad characters at both ends
				for j := 0; j < r.Intn(4) && j < len(v); j++ {
					v[j] = pb
					v[len(v)-1-j] = pb
				}
			}
			t := r.Range(-3, ln+12)
			if r.Chance(1, 20) {
				t = r.Intn(3000)
			}
			spare := r.From([]byte("XYZ"), r.Intn(16))
			emit(L(A("pad"), A(kind), X([]byte{pb}), I(t), X(v), X(spare)))
			emit(L(A("unpad"), A(kind), X([]byte{pb}), X(v)))
			// unpad of the padded value
			emit(L(A("unpad"), A(kind), X([]byte{pb}), X(mkPadder(kind, pb).Pad(append([]byte(nil), v...), t))))
		}
	}
}

// ---- C20 property oracle: the padding laws evaluated on the real padders ----
func init() {
	regCheck("C20", "pad", func(a []*Sx) (bool, []Finding) {
		kind, pb := a[0].Atom, a[1].Hex()[0]
		p := mkPadder(kind, pb)
		n, d, spare := a[2].Int(), a[3].Hex(), a[4].Hex()
		buf := sliceWithSpare(d, spare)
		res := p.Pad(buf, n)
		var fs []Finding
		add := func(k, w string) { fs = append(fs, Finding{k, w}) }
		if !bytes.Equal(buf[len(d):cap(buf)], spare) {
			add("pad-writes-spare:"+kind, "Pad wrote into the spare capacity behind the caller's slice")
		}
		if !bytes.Equal(buf[:len(d)], d) {
			add("pad-writes-input:"+kind, "Pad modified the caller's slice")
		}
		switch {
		case kind == "N" || len(d) >= n:
			if !bytes.Equal(res, d) {
				add("pad-noop:"+kind, "Pad changed a value that already has the target length (or the no-op padder changed its input)")
			}
		default:
			if len(res) != n {
				add("pad-len:"+kind, "Pad result does not have exactly the target length")
			} else {
				k := n - len(d)
				padpart, valpart := res[:k], res[k:]
				if kind == "R" {
					valpart, padpart = res[:len(d)], res[len(d):]
				}
				if !bytes.Equal(valpart, d) || !bytes.Equal(padpart, bytes.Repeat([]byte{pb}, k)) {
					add("pad-shape:"+kind, "Pad result is not pad characters followed/preceded by the value")
				}
			}
			inv := len(d) == 0 || (kind == "L" && d[0] != pb) || (kind == "R" && d[len(d)-1] != pb)
			if inv && !bytes.Equal(p.Unpad(append([]byte(nil), res...)), d) {
				add("pad-inverse:"+kind, "Unpad(Pad(v,n)) differs from v although v does not begin/end with the pad")
			}
		}
		return len(d) > 0, fs
	})
	regCheck("C20", "unpad", func(a []*Sx) (bool, []Finding) {
		kind, pb := a[0].Atom, a[1].Hex()[0]
		p := mkPadder(kind, pb)
		d := a[2].Hex()
		buf := sliceWithSpare(d, []byte("ZZZZ"))
		res := p.Unpad(buf)
		var fs []Finding
		add := func(k, w string) { fs = append(fs, Finding{k, w}) }
		if !bytes.Equal(buf[:len(d)], d) || string(buf[len(d):cap(buf)]) != "ZZZZ" {
			add("unpad-writes:"+kind, "Unpad wrote to the caller's memory")
		}
		switch kind {
		case "N":
			if !bytes.Equal(res, d) {
				add("unpad-none", "the no-op padder changed its input")
			}
		case "L":
			k := len(d) - len(res)
			if k < 0 || !bytes.Equal(d[k:], res) || !bytes.Equal(d[:k], bytes.Repeat([]byte{pb}, k)) || (len(res) > 0 && res[0] == pb) {
				add("unpad-left", "left Unpad removed something other than exactly the leading pad characters")
			}
		case "R":
			k := len(d) - len(res)
			if k < 0 || !bytes.Equal(d[:len(res)], res) || !bytes.Equal(d[len(res):], bytes.Repeat([]byte{pb}, k)) || (len(res) > 0 && res[len(res)-1] == pb) {
				add("unpad-right", "right Unpad removed something other than exactly the trailing pad characters")
			}
		}
		return len(d) > 0, fs
	})
}
