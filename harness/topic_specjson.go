package main

import (
	"bytes"
	"encoding/json"
	"fmt"
	"reflect"
	"runtime"
	"sort"
	"strings"

	"github.com/moov-io/iso8583"
	"github.com/moov-io/iso8583/field"
	msort "github.com/moov-io/iso8583/sort"
	"github.com/moov-io/iso8583/specs"
)

// ---- library spec objects -> spec terms (reflection over the exported API) ----
func encTermName(e any) string {
	if e == nil || reflect.ValueOf(e).IsNil() {
		return "nil"
	}
	for name, x := range encoders {
		if reflect.ValueOf(x).Pointer() == reflect.ValueOf(e).Pointer() && reflect.TypeOf(x) == reflect.TypeOf(e) {
			return name
		}
	}
	return "?" + reflect.TypeOf(e).String()
}

func padTermOf(p any) string {
	if p == nil || reflect.ValueOf(p).IsNil() {
		return "N x00"
	}
	insp := p.(interface{ Inspect() []byte }).Inspect()
	switch reflect.TypeOf(p).Elem().Name() {
	case "leftPadder":
		return "L " + xh(insp)
	case "rightPadder":
		return "R " + xh(insp)
	}
	return "N x00"
}

func sortTermName(f msort.StringSlice) string {
	if f == nil {
		return "nil"
	}
	n := runtime.FuncForPC(reflect.ValueOf(f).Pointer()).Name()
	switch {
	case strings.HasSuffix(n, "StringsByInt"):
		return "ByInt"
	case strings.HasSuffix(n, "StringsByHex"):
		return "ByHex"
	case strings.HasSuffix(n, ".Strings"):
		return "Strings"
	}
	return "?" + n
}

func fieldToTerm(f field.Field) string {
	sp := f.Spec()
	pref := "nil"
	if sp.Pref != nil {
		pref = sp.Pref.Inspect()
	}
	switch x := f.(type) {
	case *field.Bitmap:
		auto := "1"
		if sp.DisableAutoExpand {
			auto = "0"
		}
		return fmt.Sprintf("(BM %d %s %s %s)", sp.Length, auto, encTermName(sp.Enc), pref)
	case *field.Composite:
		mode := "nomode"
		if sp.Bitmap != nil {
			bs := sp.Bitmap.Spec()
			mode = fmt.Sprintf("(B %d %s %s)", bs.Length, encTermName(bs.Enc), bs.Pref.Inspect())
		} else if sp.Tag != nil {
			skip := "0"
			if sp.Tag.SkipUnknownTLVTags {
				skip = "1"
			}
			pu := "nil"
			if sp.Tag.PrefUnknownTLV != nil {
				pu = sp.Tag.PrefUnknownTLV.Inspect()
			}
			mode = fmt.Sprintf("(T %d %s %s %s %s %s)", sp.Tag.Length, encTermName(sp.Tag.Enc), padTermOf(sp.Tag.Pad), sortTermName(sp.Tag.Sort), skip, pu)
		}
		var tags []string
		for t := range sp.Subfields {
			tags = append(tags, t)
		}
		sort.Strings(tags)
		var parts []string
		for _, t := range tags {
			parts = append(parts, "("+xh([]byte(t))+" "+fieldToTerm(sp.Subfields[t])+")")
		}
		_ = x
		return fmt.Sprintf("(C %s %d %s (%s))", pref, sp.Length, mode, strings.Join(parts, " "))
	}
	kind := reflect.TypeOf(f).Elem().Name()
	packer := "D"
	if sp.Packer != nil {
		packer = "T2"
	}
	return fmt.Sprintf("(P %s %s %s %d %s %s)", kind, encTermName(sp.Enc), pref, sp.Length, padTermOf(sp.Pad), packer)
}

func specToTerm(ms *iso8583.MessageSpec) string {
	var ids []int
	for id := range ms.Fields {
		ids = append(ids, id)
	}
	sort.Ints(ids)
	var parts []string
	for _, id := range ids {
		parts = append(parts, fmt.Sprintf("(%d %s)", id, fieldToTerm(ms.Fields[id])))
	}
	return "(" + strings.Join(parts, " ") + ")"
}

// canonical print of a JSON value: keys sorted, descriptions dropped
func canonJSON(v any) string {
	switch x := v.(type) {
	case nil:
		return "(jnull)"
	case string:
		return "(js " + xh([]byte(x)) + ")"
	case bool:
		if x {
			return "(jb 1)"
		}
		return "(jb 0)"
	case json.Number:
		return "(jn " + x.String() + ")"
	case map[string]any:
		var ks []string
		for k := range x {
			if k != "description" {
				ks = append(ks, k)
			}
		}
		sort.Strings(ks)
		var parts []string
		for _, k := range ks {
			parts = append(parts, "("+xh([]byte(k))+" "+canonJSON(x[k])+")")
		}
		return "(jo (" + strings.Join(parts, " ") + "))"
	}
	return "(j? " + fmt.Sprint(v) + ")"
}

func renderJdocFull(d *Sx) []byte {
	switch d.Head() {
	case "jb":
		if d.List[1].Atom == "1" {
			return []byte("true")
		}
		return []byte("false")
	case "jnull":
		return []byte("null")
	case "jo":
		var parts []string
		for _, kv := range d.List[1].List {
			k, _ := json.Marshal(string(kv.List[0].Hex()))
			parts = append(parts, string(k)+":"+string(renderJdocFull(kv.List[1])))
		}
		return []byte("{" + strings.Join(parts, ",") + "}")
	}
	return renderJdoc(d)
}

func exportCanon(ms *iso8583.MessageSpec) (string, []byte, error) {
	raw, err := specs.Builder.ExportJSON(ms)
	if err != nil {
		return "", nil, err
	}
	dec := json.NewDecoder(bytes.NewReader(raw))
	dec.UseNumber()
	var v any
	if err := dec.Decode(&v); err != nil {
		return "", raw, err
	}
	return canonJSON(v), raw, nil
}

// a spec document as a jdoc term, obtained from the library's own export (then mutated by the generator)
func jsonToJdoc(v any) *Sx {
	switch x := v.(type) {
	case nil:
		return L(A("jnull"), A("0"))
	case string:
		return L(A("js"), X([]byte(x)))
	case bool:
		return L(A("jb"), B(x))
	case json.Number:
		return L(A("jn"), A(x.String()))
	case map[string]any:
		var ks []string
		for k := range x {
			if k != "description" {
				ks = append(ks, k)
			}
		}
		sort.Strings(ks)
		var kvs []*Sx
		for _, k := range ks {
			kvs = append(kvs, L(X([]byte(k)), jsonToJdoc(x[k])))
		}
		return L(A("jo"), L(kvs...))
	}
	return L(A("jnull"), A("0"))
}

// every object of the tree that has a "type" member (a field definition)
func fieldDefs(d *Sx, acc *[]*Sx) {
	if d.Head() != "jo" {
		return
	}
	for _, kv := range d.List[1].List {
		if string(kv.List[0].Hex()) == "type" {
			*acc = append(*acc, d)
		}
		fieldDefs(kv.List[1], acc)
	}
}

// targeted edit: one field definition changes its type (a primitive becomes a Composite without subfields, a composite a
// primitive, ...) or loses one of its members
func retypeJdoc(r *Rng, d *Sx) *Sx {
	var defs []*Sx
	fieldDefs(d, &defs)
	if len(defs) == 0 {
		return d
	}
	target := defs[r.Intn(len(defs))]
	var rec func(x *Sx) *Sx
	rec = func(x *Sx) *Sx {
		if x.Head() != "jo" {
			return x
		}
		var kvs []*Sx
		drop := ""
		if x == target && r.Intn(3) == 0 {
			drop = Pick(r, []string{"subfields", "prefix", "enc", "length", "tag", "bitmap", "padding"})
		}
		for _, kv := range x.List[1].List {
			k := string(kv.List[0].Hex())
			if x == target && k == drop {
				continue
			}
			if x == target && k == "type" && drop == "" {
				kvs = append(kvs, L(kv.List[0], L(A("js"), X([]byte(Pick(r, []string{"Composite", "String", "Numeric", "Binary", "Bitmap", "Hex", "Track1", "Track2", "Track3"}))))))
				continue
			}
			kvs = append(kvs, L(kv.List[0], rec(kv.List[1])))
		}
		return L(A("jo"), L(kvs...))
	}
	return rec(d)
}

// random edit of a document tree: drop / rename a key, wrong type, null member, negative length, unknown names
func mutateJdoc(r *Rng, d *Sx, depth int) *Sx {
	if d.Head() != "jo" {
		switch r.Intn(6) {
		case 0:
			return L(A("jnull"), A("0"))
		case 1:
			return L(A("jn"), I(r.Range(-5, 40)))
		case 2:
			return L(A("js"), X([]byte(Pick(r, []string{"", "Nope", "ASCII.LLLLL", "EBCDIC1047.LL", "Track2", "Hex", "StringsByInt", "Strings", "None", "Left", "BerTLVTag"}))))
		case 3:
			return L(A("jb"), B(r.Bool()))
		case 4:
			return L(A("jo"), L())
		}
		return d
	}
	kvs := append([]*Sx(nil), d.List[1].List...)
	if len(kvs) == 0 {
		return d
	}
	i := r.Intn(len(kvs))
	switch r.Intn(5) {
	case 0:
		kvs = append(kvs[:i], kvs[i+1:]...)
	case 1:
		kvs[i] = L(X([]byte(string(kvs[i].List[0].Hex())+"x")), kvs[i].List[1])
	case 2, 3:
		kvs[i] = L(kvs[i].List[0], mutateJdoc(r, kvs[i].List[1], depth+1))
	case 4:
		kvs[i] = L(kvs[i].List[0], L(A("jnull"), A("0")))
	}
	return L(A("jo"), L(kvs...))
}

// exportable vocabulary: String/Numeric/Binary leaves, the 27 named prefixes, 7 encodings, Left/Right/no padding,
// StringsByInt / StringsByHex, nested tagged / positional / bitmapped composites (no unknown-tag skipping)
func exportableTerm(sx *Sx) bool {
	a := sx.Args()
	okPref := func(p string) bool {
		return !strings.Contains(p, "LLLLL") && !strings.HasPrefix(p, "EBCDIC1047")
	}
	okEnc := func(e string) bool { return e != "EBCDIC1047" && e != "BerTag" }
	switch sx.Head() {
	case "P":
		return a[0].Atom != "Hex" && okEnc(a[1].Atom) && okPref(a[2].Atom) && a[6].Atom == "D"
	case "C":
		if !okPref(a[0].Atom) {
			return false
		}
		m := a[2].Args()
		if a[2].Head() == "T" {
			if (m[1].Atom != "nil" && !okEnc(m[1].Atom)) || m[4].Atom == "Strings" || m[5].Atom == "1" || m[6].Atom != "nil" {
				return false
			}
		} else if !okEnc(m[1].Atom) || !okPref(m[2].Atom) {
			return false
		}
		for _, s := range a[3].List {
			if !exportableTerm(s.List[1]) {
				return false
			}
		}
		return true
	}
	return false
}

// zeroTagLen rewrites every (T len enc pad ...) with an encoding other than BerTag to (T 0 enc N x00 ...)
func zeroTagLen(sx *Sx) (*Sx, bool) {
	if !sx.IsL {
		return sx, false
	}
	changed := false
	out := make([]*Sx, len(sx.List))
	for i, c := range sx.List {
		z, ch := zeroTagLen(c)
		out[i] = z
		changed = changed || ch
	}
	if len(out) == 8 && !out[0].IsL && out[0].Atom == "T" && out[2].Atom != "nil" && out[2].Atom != "BerTag" && out[1].Atom != "0" {
		out[1] = I(0)
		out[3] = A("N")
		out[4] = X([]byte{0})
		changed = true
	}
	return L(out...), changed
}

func exportableMsg(sx *Sx) bool {
	a := sx.Args()
	if !exportableTerm(a[0]) || a[1].List[2].Atom == "EBCDIC1047" || strings.HasPrefix(a[1].List[3].Atom, "EBCDIC1047") {
		return false
	}
	for _, f := range a[2].List {
		if !exportableTerm(f.List[1]) {
			return false
		}
	}
	return true
}

func init() {
	executors["specjson.export"] = func(a []*Sx) string {
		c, _, err := exportCanon(buildMessageSpec(a[0]))
		if err != nil {
			return "err"
		}
		return "ok " + c
	}
	executors["specjson.import"] = func(a []*Sx) string {
		ms, err := specs.Builder.ImportJSON(renderJdocFull(a[0]))
		if err != nil {
			return "err"
		}
		return "ok " + specToTerm(ms)
	}
	generators["specjson"] = func(r *Rng, tier string, emit func(*Sx)) {
		n := 500
		if tier == "thorough" {
			n = 10000
		}
		for i := 0; i < n; i++ {
			restrictExportable = i%5 != 0
			explicitBitmapLength = true
			g := genMsg(r, false)
			restrictExportable, explicitBitmapLength = false, false
			emit(L(A("specjson.export"), g.term))
			// the same specification with the tag length of every encoded tag left out (Tag.Enc set, Tag.Length 0)
			if z, changed := zeroTagLen(g.term); changed {
				emit(L(A("specjson.export"), z))
				if _, rawz, err := exportCanon(buildMessageSpec(z)); err == nil {
					dz := json.NewDecoder(bytes.NewReader(rawz))
					dz.UseNumber()
					var vz any
					dz.Decode(&vz)
					emit(L(A("specjson.import"), jsonToJdoc(vz)))
				}
			}
			c, raw, err := exportCanon(buildMessageSpec(g.term))
			_ = c
			if err != nil {
				continue
			}
			dec := json.NewDecoder(bytes.NewReader(raw))
			dec.UseNumber()
			var v any
			dec.Decode(&v)
			doc := jsonToJdoc(v)
			emit(L(A("specjson.import"), doc))
			for k := 0; k < 6; k++ {
				m := doc
				if k >= 4 {
					m = retypeJdoc(r, m)
				} else {
					for e := 0; e <= r.Intn(2); e++ {
						m = mutateJdoc(r, m, 0)
					}
				}
				emit(L(A("specjson.import"), m))
			}
		}
		for _, d := range []string{"(jo ())", "(jo ((x6669656c6473 (jo ((x30 (jnull 0)))))))", "(jo ((x6669656c6473 (jnull 0))))", "(jo ((x6669656c6473 (jo ((x78 (jo ())))))))",
			"(jo ((x6e616d65 (jn 5)) (x6669656c6473 (jo ()))))"} {
			x, err := parseSx(d)
			if err == nil {
				emit(L(A("specjson.import"), x))
			}
		}
	}

	// ---- C17 oracle ----
	regCheck("C17", "specjson.export", func(a []*Sx) (nt bool, fs []Finding) {
		defer func() {
			if r := recover(); r != nil {
				fs = append(fs, Finding{"c17-panic-export", fmt.Sprintf("export/import round trip panicked: %v", clip(fmt.Sprint(r)))})
			}
		}()
		ms := buildMessageSpec(a[0])
		raw, err := specs.Builder.ExportJSON(ms)
		if !exportableMsg(a[0]) {
			return false, nil
		}
		if err != nil {
			return true, []Finding{{"c17-export-fails", "ExportJSON fails on a spec inside the exportable vocabulary: " + safeErr(err)}}
		}
		for k := 0; k < 3; k++ {
			raw2, _ := specs.Builder.ExportJSON(ms)
			if !bytes.Equal(raw, raw2) {
				return true, []Finding{{"c17-export-nondeterministic", "ExportJSON gives different bytes on repeated calls"}}
			}
		}
		imp, err := specs.Builder.ImportJSON(raw)
		if err != nil {
			return true, []Finding{{"c17-import-fails", "the exported JSON is rejected by ImportJSON: " + safeErr(err)}}
		}
		if specToTerm(imp) != specToTerm(ms) {
			fs = append(fs, Finding{"c17-spec-differs", fmt.Sprintf("the re-imported spec %s differs from the original %s", clip(specToTerm(imp)), clip(specToTerm(ms)))})
		}
		raw3, err := specs.Builder.ExportJSON(imp)
		if err != nil || !bytes.Equal(raw, raw3) {
			fs = append(fs, Finding{"c17-reexport-differs", "exporting the re-imported spec does not yield byte-identical JSON"})
		}
		// behaviour: a populated message packs to the same bytes and unpacks to the same values under both specs
		r := NewRng(uint64(len(raw)))
		g := &gmsg{}
		_ = g
		m1, m2 := iso8583.NewMessage(ms), iso8583.NewMessage(imp)
		m1.MTI("0100")
		m2.MTI("0100")
		for _, ft := range a[0].Args()[2].List {
			id := ft.List[0].Int()
			node := nodeFromTerm(ft.List[1])
			if node == nil {
				continue
			}
			v := genValue(r, node)
			for _, m := range []*iso8583.Message{m1, m2} {
				if _, isComp := m.GetField(id).(*field.Composite); isComp {
					marshalOne(m, fmt.Sprint(id), leafFieldValue(A("x")))
					applyVal(m.GetField(id), v)
				} else {
					marshalOne(m, fmt.Sprint(id), leafFieldValue(v))
				}
			}
		}
		p1, e1 := m1.Pack()
		p2, e2 := m2.Pack()
		if (e1 == nil) != (e2 == nil) || !bytes.Equal(p1, p2) {
			fs = append(fs, Finding{"c17-pack-differs", "a message packs differently under the re-imported spec"})
		} else if e1 == nil {
			u1, u2 := iso8583.NewMessage(ms), iso8583.NewMessage(imp)
			if (u1.Unpack(p1) == nil) != (u2.Unpack(p1) == nil) || msgObserve(u1) != msgObserve(u2) {
				fs = append(fs, Finding{"c17-unpack-differs", "bytes unpack differently under the re-imported spec"})
			}
		}
		return true, fs
	})
	regCheck("C17", "specjson.import", func(a []*Sx) (nt bool, fs []Finding) {
		defer func() {
			if r := recover(); r != nil {
				fs = append(fs, Finding{"c17-panic-import", fmt.Sprintf("ImportJSON or NewMessage panicked: %v", clip(fmt.Sprint(r)))})
			}
		}()
		ms, err := specs.Builder.ImportJSON(renderJdocFull(a[0]))
		if err != nil {
			return true, nil
		}
		if _, ok := ms.Fields[0]; ok {
			if _, ok := ms.Fields[1].(*field.Bitmap); ok {
				m := iso8583.NewMessage(ms)
				m.MTI("0100")
				m.Pack()
			}
		}
		return true, nil
	})
}

// rebuild generator nodes from a spec term (for value generation under an arbitrary spec)
func nodeFromTerm(sx *Sx) *gnode {
	a := sx.Args()
	switch sx.Head() {
	case "P":
		n := &gnode{kind: a[0].Atom, enc: a[1].Atom, pref: a[2].Atom, L: a[3].Int(), padK: a[4].Atom, padB: a[5].Hex()[0], term: sx}
		n.fixed = strings.HasSuffix(n.pref, ".Fixed")
		return n
	case "C":
		n := &gnode{comp: true, pref: a[0].Atom, L: a[1].Int(), subs: map[string]*gnode{}, term: sx}
		m := a[2].Args()
		sortName := "ByInt"
		if a[2].Head() == "B" {
			n.mode = "bmp"
		} else {
			sortName = m[4].Atom
			switch {
			case m[1].Atom == "nil":
				n.mode = "pos"
			case m[1].Atom == "BerTag":
				n.mode = "ber"
			default:
				n.mode = "tag"
			}
		}
		for _, s := range a[3].List {
			sub := nodeFromTerm(s.List[1])
			if sub == nil {
				return nil
			}
			n.subs[string(s.List[0].Hex())] = sub
			n.order = append(n.order, string(s.List[0].Hex()))
		}
		sortFns[sortName](n.order)
		return n
	}
	return nil
}

// G3: the name tables of specs/builder.go as the live maps hold them
func init() {
	extraGen["BuilderTables.v"] = func() string {
		var sb strings.Builder
		sb.WriteString("(* GENERATED by harness translate from the live maps of /repo/specs/builder.go: do not edit. *)\nFrom Coq Require Import List Strings.String.\nImport ListNotations.\nOpen Scope string_scope.\n\n")
		pairs := func(name string, m map[string]string) {
			var ks []string
			for k := range m {
				ks = append(ks, k)
			}
			sort.Strings(ks)
			var rows []string
			for _, k := range ks {
				rows = append(rows, fmt.Sprintf("(%q, %q)", k, m[k]))
			}
			fmt.Fprintf(&sb, "Definition %s : list (string * string) :=\n  [%s].\n\n", name, strings.Join(rows, ";\n   "))
		}
		m := map[string]string{}
		for k, p := range specs.PrefixesExtToInt {
			m[k] = p.Inspect()
		}
		pairs("prefixes_ext_to_int", m) // external name -> Inspect() of the prefixer it maps to
		m = map[string]string{}
		for k, e := range specs.EncodingsExtToInt {
			m[k] = encTermName(e)
		}
		pairs("encodings_ext_to_int", m) // external name -> the model's name of the encoder object
		m = map[string]string{}
		for k, v := range specs.EncodingsIntToExt {
			m[k] = v
		}
		pairs("encodings_int_to_ext", m) // Go type name -> external name
		m = map[string]string{}
		for name, e := range encoders {
			m[name] = reflect.TypeOf(e).Elem().Name()
		}
		pairs("encoder_type_names", m) // the model's name -> Go type name of the encoder object
		m = map[string]string{}
		for k, v := range specs.PaddersIntToExt {
			m[k] = v
		}
		pairs("padders_int_to_ext", m)
		m = map[string]string{}
		for k, f := range specs.SortExtToInt {
			m[k] = sortTermName(f)
		}
		pairs("sort_ext_to_int", m)
		m = map[string]string{}
		for k, c := range specs.FieldConstructor {
			m[k] = reflect.TypeOf(c(&field.Spec{Length: 1, Tag: &field.TagSpec{Sort: msort.StringsByInt}, Subfields: map[string]field.Field{}})).Elem().Name()
		}
		pairs("field_constructors", m)
		return sb.String()
	}
}
