package main

func translate(outdir string) {}
