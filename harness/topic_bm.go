package main

import (
	"fmt"
	"strings"

	"github.com/moov-io/iso8583/field"
)

func mkBitmap(B int, auto bool, enc, pref string) *field.Bitmap {
	return field.NewBitmap(&field.Spec{Length: B, Enc: encoders[enc], Pref: prefixers[pref], DisableAutoExpand: !auto})
}

// runs the ops of a bm case, returns per-op replies
func runBmOps(bm *field.Bitmap, ops []*Sx) []string {
	var out []string
	for _, op := range ops {
		switch op.Head() {
		case "set":
			bm.Set(op.List[1].Int())
			b, _ := bm.Bytes()
			out = append(out, xh(b))
		case "isset":
			if bm.IsSet(op.List[1].Int()) {
				out = append(out, "1")
			} else {
				out = append(out, "0")
			}
		case "unpack":
			n, err := bm.Unpack(op.List[1].Hex())
			if err != nil {
				out = append(out, "err")
			} else {
				b, _ := bm.Bytes()
				out = append(out, fmt.Sprintf("ok %s %d", xh(b), n))
			}
		case "setbytes":
			bm.SetBytes(op.List[1].Hex())
			out = append(out, "ok")
		case "len":
			out = append(out, fmt.Sprint(bm.Len()))
		case "pack":
			p, err := bm.Pack()
			if err != nil {
				out = append(out, "err")
			} else {
				out = append(out, "ok "+xh(p))
			}
		case "reset":
			bm.Reset()
			out = append(out, "ok")
		case "bytes":
			b, _ := bm.Bytes()
			out = append(out, xh(b))
		}
	}
	return out
}

func init() {
	executors["bm"] = func(a []*Sx) string {
		bm := mkBitmap(a[0].Int(), a[1].Bool(), a[2].Atom, a[3].Atom)
		return strings.Join(runBmOps(bm, a[4].List), " | ")
	}
	generators["bm"] = func(r *Rng, tier string, emit func(*Sx)) {
		thorough := tier == "thorough"
		op := func(name string, args ...*Sx) *Sx { return L(append([]*Sx{A(name)}, args...)...) }
		for B := 1; B <= 16; B++ {
			for _, auto := range []bool{true, false} {
				encs := []string{"Binary", "Hex"}
				for _, enc := range encs {
					pref := Pick(r, []string{"Binary.Fixed", "ASCII.Fixed", "Hex.Fixed", "BCD.Fixed", "EBCDIC.Fixed"})
					hd := func(ops ...*Sx) *Sx { return L(A("bm"), I(B), B_(auto), A(enc), A(pref), L(ops...)) }
					maxIdx := 4 * 8 * B
					// singles: every index in 1..4 blocks (+ 0, negative, one past)
					step := 1
					if !thorough && B > 4 {
						step = 3
					}
					for n := -1; n <= maxIdx+1; n += step {
						probe := []*Sx{op("set", I(n)), op("len"), op("isset", I(n)), op("isset", I(1)), op("isset", I(n-1)), op("isset", I(n+1))}
						for blk := 0; blk < 4; blk++ {
							probe = append(probe, op("isset", I(blk*8*B+1)))
						}
						probe = append(probe, op("pack"))
						emit(hd(probe...))
					}
					// pairs (thorough: all pairs within 2 blocks for small B; otherwise sampled), then read every bit back
					np := 40
					if thorough {
						np = 400
					}
					for i := 0; i < np; i++ {
						n1, n2 := r.Range(1, maxIdx), r.Range(1, maxIdx)
						ops := []*Sx{op("set", I(n1)), op("set", I(n2))}
						if r.Chance(1, 3) {
							ops = append(ops, op("set", I(r.Range(1, maxIdx))))
						}
						for k := 0; k < 10; k++ {
							ops = append(ops, op("isset", I(r.Range(1, maxIdx))))
						}
						ops = append(ops, op("isset", I(n1)), op("isset", I(n2)), op("len"), op("pack"), op("reset"), op("bytes"))
						emit(hd(ops...))
					}
					if thorough && B <= 2 {
						for n1 := 1; n1 <= 2*8*B; n1++ {
							for n2 := 1; n2 <= 2*8*B; n2++ {
								emit(hd(op("set", I(n1)), op("set", I(n2)), op("bytes"), op("isset", I(n1)), op("isset", I(n2)), op("len")))
							}
						}
					}
					// packed bitmap byte strings of up to 4 blocks: continuation chains, truncation, then use the result
					nu := 60
					if thorough {
						nu = 600
					}
					for i := 0; i < nu; i++ {
						blocks := r.Range(1, 4)
						raw := r.Bytes(blocks * B)
						for b := 0; b < blocks; b++ {
							cont := b < blocks-1
							if r.Chance(1, 8) {
								cont = !cont
							}
							if cont {
								raw[b*B] |= 0x80
							} else {
								raw[b*B] &= 0x7f
							}
						}
						wire := raw
						if enc == "Hex" {
							wire = []byte(strings.ToUpper(fmt.Sprintf("%x", raw)))
							if r.Chance(1, 6) {
								wire = []byte(fmt.Sprintf("%x", raw))
							}
						}
						wire = append(append([]byte(nil), wire...), r.Bytes(r.Intn(3))...)
						if r.Chance(1, 5) && len(wire) > 0 {
							wire = wire[:r.Intn(len(wire))]
						}
						if r.Chance(1, 10) && len(wire) > 0 {
							wire[r.Intn(len(wire))] = byte(r.U64())
						}
						emit(hd(op("unpack", X(wire)), op("len"), op("isset", I(r.Range(1, maxIdx))), op("isset", I(1)), op("set", I(r.Range(1, maxIdx))), op("pack")))
					}
					// all single-block byte strings for B = 1 (both encodings)
					if B == 1 {
						for v := 0; v < 256; v++ {
							w := []byte{byte(v), 0x33, 0x41}
							if enc == "Hex" {
								w = []byte(fmt.Sprintf("%02X3341", v))
							}
							emit(hd(op("unpack", X(w)), op("bytes")))
						}
					}
					// long continuation chain
					chain := make([]byte, 0)
					for b := 0; b < 40; b++ {
						blk := make([]byte, B)
						blk[0] = 0x80
						chain = append(chain, blk...)
					}
					if enc == "Hex" {
						chain = []byte(fmt.Sprintf("%X", chain))
					}
					emit(hd(op("unpack", X(chain)), op("len")))
					// state that is not a whole number of blocks (SetBytes), then Set
					emit(hd(op("setbytes", X(r.Bytes(r.Intn(B+2)))), op("set", I(r.Range(1, maxIdx))), op("len")))
					emit(hd(op("setbytes", X(r.Bytes(B*2))), op("set", I(r.Range(1, maxIdx))), op("isset", I(3)), op("len")))
				}
			}
		}
	}
}

func B_(b bool) *Sx { return B(b) }

// ---- C05 oracle (bitmap unit level): an independent reference bit set ----
type refBitmap struct {
	B      int
	auto   bool
	blocks int
	bits   map[int]bool
}

func (r *refBitmap) set(n int) {
	if n <= 0 {
		return
	}
	if n > 8*r.B*r.blocks {
		if !r.auto {
			return
		}
		need := (n + 8*r.B - 1) / (8 * r.B)
		r.blocks = need
		for b := 0; b < need-1; b++ {
			r.bits[b*8*r.B+1] = true
		}
	}
	r.bits[n] = true
}

func (r *refBitmap) bytes() []byte {
	out := make([]byte, r.B*r.blocks)
	for n := range r.bits {
		if n >= 1 && n <= 8*len(out) {
			out[(n-1)/8] |= 0x80 >> uint((n-1)%8)
		}
	}
	return out
}

func init() {
	regCheck("C05", "bm", func(a []*Sx) (bool, []Finding) {
		B, auto, enc := a[0].Int(), a[1].Bool(), a[2].Atom
		bm := mkBitmap(B, auto, enc, a[3].Atom)
		ref := &refBitmap{B: B, auto: auto, blocks: 1, bits: map[int]bool{}}
		var fs []Finding
		add := func(k, w string) { fs = append(fs, Finding{k, w}) }
		nontrivial := false
		for _, op := range a[4].List {
			got := runBmOps(bm, []*Sx{op})[0]
			switch op.Head() {
			case "setbytes":
				return nontrivial, fs // arbitrary internal state: outside the property
			case "set":
				ref.set(op.List[1].Int())
				nontrivial = true
				if got != xh(ref.bytes()) {
					add("bm-set", fmt.Sprintf("after Set(%d) the bitmap is %s, the reference bit set gives %s (B=%d auto=%v)", op.List[1].Int(), got, xh(ref.bytes()), B, auto))
					return true, fs
				}
			case "isset":
				n := op.List[1].Int()
				want := "0"
				if n >= 1 && n <= 8*B*ref.blocks && ref.bits[n] {
					want = "1"
				}
				if got != want {
					add("bm-isset", fmt.Sprintf("IsSet(%d) = %s, reference says %s", n, got, want))
				}
			case "len":
				if got != fmt.Sprint(8*B*ref.blocks) {
					add("bm-len", "Len() disagrees with the minimal number of blocks")
				}
			case "reset":
				ref = &refBitmap{B: B, auto: auto, blocks: 1, bits: map[int]bool{}}
			case "pack":
				want := ref.bytes()
				w := "ok " + xh(want)
				if enc == "Hex" {
					w = "ok " + xh([]byte(strings.ToUpper(fmt.Sprintf("%x", want))))
				}
				if got != w {
					add("bm-pack", "Pack() is not the encoding of the bit set")
				}
			case "unpack":
				// reference decoder: blocks announced by continuation bits (exactly one when expansion is disabled)
				wire := op.List[1].Hex()
				unit := B
				if enc == "Hex" {
					unit = 2 * B
				}
				var data []byte
				pos, ok := 0, true
				for {
					if pos+unit > len(wire) {
						ok = false
						break
					}
					blk := wire[pos : pos+unit]
					if enc == "Hex" {
						dec := make([]byte, B)
						if _, err := fmt.Sscanf(string(blk), "%x", &dec); err != nil || !isHex(blk) {
							ok = false
							break
						}
						blk = dec
					}
					data = append(data, blk...)
					pos += unit
					if !auto || blk[0]&0x80 == 0 {
						break
					}
				}
				if !ok {
					if got != "err" {
						add("bm-unpack-accepts", "Unpack accepted a bitmap the continuation bits / encoding do not allow")
					}
					return nontrivial, fs // state after a failed unpack is unspecified
				}
				want := fmt.Sprintf("ok %s %d", xh(data), pos)
				if got != want {
					add("bm-unpack-chain", fmt.Sprintf("Unpack gives %s, the chain announced by continuation bits is %s", got, want))
					return true, fs
				}
				nontrivial = true
				ref = &refBitmap{B: B, auto: auto, blocks: len(data) / B, bits: map[int]bool{}}
				for i, by := range data {
					for k := 0; k < 8; k++ {
						if by&(0x80>>uint(k)) != 0 {
							ref.bits[i*8+k+1] = true
						}
					}
				}
			}
		}
		return nontrivial, fs
	})
}

func isHex(b []byte) bool {
	for _, c := range b {
		if !(c >= '0' && c <= '9' || c >= 'a' && c <= 'f' || c >= 'A' && c <= 'F') {
			return false
		}
	}
	return true
}
