package main

import (
	"encoding/hex"
	"fmt"
	"strconv"
	"strings"
)

// Sx is an s-expression: an atom or a list.
type Sx struct {
	Atom string
	List []*Sx
	IsL  bool
}

func A(s string) *Sx  { return &Sx{Atom: s} }
func L(xs ...*Sx) *Sx { return &Sx{List: xs, IsL: true} }
func I(n int) *Sx     { return A(strconv.Itoa(n)) }
func X(b []byte) *Sx  { return A("x" + hex.EncodeToString(b)) }
func B(b bool) *Sx {
	if b {
		return A("1")
	}
	return A("0")
}

func (s *Sx) String() string {
	if !s.IsL {
		return s.Atom
	}
	parts := make([]string, len(s.List))
	for i, x := range s.List {
		parts[i] = x.String()
	}
	return "(" + strings.Join(parts, " ") + ")"
}

func parseSx(line string) (*Sx, error) {
	stack := [][]*Sx{{}}
	cur := strings.Builder{}
	flush := func() {
		if cur.Len() > 0 {
			top := len(stack) - 1
			stack[top] = append(stack[top], A(cur.String()))
			cur.Reset()
		}
	}
	for i := 0; i < len(line); i++ {
		c := line[i]
		switch c {
		case '(':
			flush()
			stack = append(stack, []*Sx{})
		case ')':
			flush()
			if len(stack) < 2 {
				return nil, fmt.Errorf("unbalanced )")
			}
			top := stack[len(stack)-1]
			stack = stack[:len(stack)-1]
			stack[len(stack)-1] = append(stack[len(stack)-1], L(top...))
		case ' ', '\t', '\n', '\r':
			flush()
		default:
			cur.WriteByte(c)
		}
	}
	flush()
	if len(stack) != 1 || len(stack[0]) != 1 {
		return nil, fmt.Errorf("bad sexp")
	}
	return stack[0][0], nil
}

func (s *Sx) Hex() []byte {
	if s.IsL || !strings.HasPrefix(s.Atom, "x") {
		panic("not hex: " + s.String())
	}
	b, err := hex.DecodeString(s.Atom[1:])
	if err != nil {
		panic(err)
	}
	return b
}

func (s *Sx) Int() int {
	n, err := strconv.Atoi(s.Atom)
	if err != nil {
		panic(err)
	}
	return n
}

func (s *Sx) Bool() bool { return s.Atom == "1" }

func (s *Sx) Head() string {
	if s.IsL && len(s.List) > 0 && !s.List[0].IsL {
		return s.List[0].Atom
	}
	return ""
}

func (s *Sx) Args() []*Sx { return s.List[1:] }

func xh(b []byte) string { return "x" + hex.EncodeToString(b) }
