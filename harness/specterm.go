package main

import (
	"errors"
	"fmt"
	"reflect"
	"sort"
	"strings"

	"github.com/moov-io/iso8583"
	"github.com/moov-io/iso8583/encoding"
	iso8583errors "github.com/moov-io/iso8583/errors"
	"github.com/moov-io/iso8583/field"
	"github.com/moov-io/iso8583/padding"
	msort "github.com/moov-io/iso8583/sort"
)

// ---- spec terms -> library objects ----
// (P kind enc pref len padkind padbyte packer)
// (C pref len mode ((xtag fspec)...))   mode = (T len enc|nil padkind padbyte sort skip prefunk|nil) | (B len enc pref)
// (M (P ...) (B auto enc pref) ((id fspec)...))

func buildPadder(kind *Sx, pb *Sx) padding.Padder {
	switch kind.Atom {
	case "L":
		return padding.Left(rune(pb.Hex()[0]))
	case "R":
		return padding.Right(rune(pb.Hex()[0]))
	}
	return nil
}

var sortFns = map[string]msort.StringSlice{"Strings": msort.Strings, "ByInt": msort.StringsByInt, "ByHex": msort.StringsByHex}

func buildBitmapSpec(a []*Sx) *field.Spec {
	return &field.Spec{Length: a[0].Int(), DisableAutoExpand: !a[1].Bool(), Enc: encoders[a[2].Atom], Pref: prefixers[a[3].Atom], Description: "bitmap"}
}

func buildField(sx *Sx) field.Field {
	a := sx.Args()
	switch sx.Head() {
	case "P":
		sp := &field.Spec{Length: a[3].Int(), Enc: encoders[a[1].Atom], Pref: prefixers[a[2].Atom], Pad: buildPadder(a[4], a[5]), Description: "f"}
		if a[6].Atom == "T2" {
			sp.Packer = field.Track2Packer{}
			sp.Unpacker = field.Track2Unpacker{}
		}
		switch a[0].Atom {
		case "String":
			return field.NewString(sp)
		case "Numeric":
			return field.NewNumeric(sp)
		case "Binary":
			return field.NewBinary(sp)
		case "Hex":
			return field.NewHex(sp)
		}
	case "C":
		sp := &field.Spec{Length: a[1].Int(), Pref: prefixers[a[0].Atom], Description: "c", Subfields: map[string]field.Field{}}
		m := a[2].Args()
		if a[2].Head() == "T" {
			ts := &field.TagSpec{Length: m[0].Int(), Pad: buildPadder(m[2], m[3]), Sort: sortFns[m[4].Atom], SkipUnknownTLVTags: m[5].Bool()}
			if m[1].Atom != "nil" {
				ts.Enc = encoders[m[1].Atom]
			}
			if m[6].Atom != "nil" {
				ts.PrefUnknownTLV = prefixers[m[6].Atom]
			}
			sp.Tag = ts
		} else {
			sp.Bitmap = field.NewBitmap(buildBitmapSpec([]*Sx{m[0], A("0"), m[1], m[2]}))
		}
		for _, s := range a[3].List {
			sp.Subfields[string(s.List[0].Hex())] = buildField(s.List[1])
		}
		return field.NewComposite(sp)
	}
	panic("bad field term " + sx.String())
}

func buildMessageSpec(sx *Sx) *iso8583.MessageSpec {
	a := sx.Args()
	fields := map[int]field.Field{0: buildField(a[0]), 1: field.NewBitmap(buildBitmapSpec(a[1].List))}
	for _, f := range a[2].List {
		fields[f.List[0].Int()] = buildField(f.List[1])
	}
	return &iso8583.MessageSpec{Name: "gen", Fields: fields}
}

// ---- values ----
// (S x..) (N int) (B x..) (H x..) (C ((xtag val)...))

func leafFieldValue(v *Sx) reflect.Value {
	switch v.Head() {
	case "S":
		return reflect.ValueOf(field.NewStringValue(string(v.List[1].Hex())))
	case "N":
		return reflect.ValueOf(field.NewNumericValue(int64(v.List[1].Int())))
	case "B":
		return reflect.ValueOf(field.NewBinaryValue(v.List[1].Hex()))
	case "H":
		return reflect.ValueOf(field.NewHexValue(string(v.List[1].Hex())))
	}
	return reflect.ValueOf(&struct{}{})
}

// marshalOne sets the (sub)field `key` of a message or composite through Marshal with a one-field struct
func marshalOne(target interface{ Marshal(any) error }, key string, fv reflect.Value) error {
	st := reflect.StructOf([]reflect.StructField{{Name: "X", Type: fv.Type(), Tag: reflect.StructTag(fmt.Sprintf(`index:"%s,keepzero"`, key))}})
	p := reflect.New(st)
	p.Elem().Field(0).Set(fv)
	return target.Marshal(p.Interface())
}

// applyVal populates a field object with a value term (composites: marks the listed subfields present)
func applyVal(f field.Field, v *Sx) {
	switch x := f.(type) {
	case *field.String:
		if v.Head() == "S" {
			x.SetValue(string(v.List[1].Hex()))
		}
	case *field.Numeric:
		if v.Head() == "N" {
			x.SetValue(int64(v.List[1].Int()))
		}
	case *field.Binary:
		if v.Head() == "B" {
			x.SetValue(v.List[1].Hex())
		}
	case *field.Hex:
		if v.Head() == "H" {
			x.SetValue(string(v.List[1].Hex()))
		}
	case *field.Composite:
		if v.Head() != "C" {
			return
		}
		for _, e := range v.List[1].List {
			tag := string(e.List[0].Hex())
			sub, ok := x.Spec().Subfields[tag]
			if !ok {
				continue
			}
			if _, isComp := sub.(*field.Composite); isComp {
				if e.List[1].Head() != "C" {
					continue
				}
				if err := marshalOne(x, tag, reflect.ValueOf(&struct{}{})); err != nil {
					panic(err)
				}
				applyVal(x.GetSubfields()[tag], e.List[1])
			} else {
				if e.List[1].Head() == "C" || !kindMatches(sub, e.List[1].Head()) {
					continue
				}
				if err := marshalOne(x, tag, leafFieldValue(e.List[1])); err != nil {
					panic(err)
				}
			}
		}
	}
}

func kindMatches(f field.Field, head string) bool {
	switch f.(type) {
	case *field.String:
		return head == "S"
	case *field.Numeric:
		return head == "N"
	case *field.Binary:
		return head == "B"
	case *field.Hex:
		return head == "H"
	}
	return false
}

// showVal prints the observable value of a field: set subfields only, tags in byte order
func showVal(f field.Field) string {
	switch x := f.(type) {
	case *field.String:
		return "(S " + xh([]byte(x.Value())) + ")"
	case *field.Numeric:
		return fmt.Sprintf("(N %d)", x.Value())
	case *field.Binary:
		return "(B " + xh(x.Value()) + ")"
	case *field.Hex:
		return "(H " + xh([]byte(x.Value())) + ")"
	case *field.Composite:
		subs := x.GetSubfields()
		var tags []string
		for t := range subs {
			tags = append(tags, t)
		}
		sort.Strings(tags)
		var parts []string
		for _, t := range tags {
			parts = append(parts, "("+xh([]byte(t))+" "+showVal(subs[t])+")")
		}
		return "(C (" + strings.Join(parts, " ") + "))"
	}
	return "?"
}

func showErrPath(err error) string {
	var ue *iso8583errors.UnpackError
	var ids []string
	if errors.As(err, &ue) {
		for _, id := range ue.FieldIDs() {
			ids = append(ids, xh([]byte(id)))
		}
	}
	return "err " + strings.Join(ids, ",")
}

var _ = encoding.ASCII
