package main

import (
	"bytes"
	"encoding/json"
	"errors"
	"fmt"
	"sort"
	"strconv"
	"strings"
	"unicode/utf8"

	"github.com/moov-io/iso8583"
	iso8583errors "github.com/moov-io/iso8583/errors"
	"github.com/moov-io/iso8583/field"
)

// replay a message history on the library; returns the message after the last op
func replayMsg(spec *Sx, ops []*Sx, after func(i int, o *Sx, m *iso8583.Message)) *iso8583.Message {
	ms := buildMessageSpec(spec)
	m := iso8583.NewMessage(ms)
	for i, o := range ops {
		switch o.Head() {
		case "mti", "field", "setval":
			runOneMsgOp(m, o)
		case "unpack":
			m.Unpack(o.List[1].Hex())
		case "unset":
			m.UnsetField(o.List[1].Int())
		case "unsetp":
			m.UnsetFields(string(o.List[1].Hex()))
		case "fromjson":
			m.UnmarshalJSON(renderJdoc(o.List[1]))
		case "pack":
			m.Pack()
		case "json":
			m.MarshalJSON()
		case "clone":
			if c, err := m.Clone(); err == nil {
				m = c
			}
		case "cloneorig":
			m.Clone()
		case "bitmap":
			m.Bitmap()
		}
		if after != nil {
			after(i, o, m)
		}
	}
	return m
}

// top-level keys of a JSON object in document order
func jsonKeys(doc []byte) ([]string, error) {
	dec := json.NewDecoder(bytes.NewReader(doc))
	t, err := dec.Token()
	if err != nil || t != json.Delim('{') {
		return nil, fmt.Errorf("not an object")
	}
	var keys []string
	for dec.More() {
		k, err := dec.Token()
		if err != nil {
			return nil, err
		}
		keys = append(keys, k.(string))
		var skip json.RawMessage
		if err := dec.Decode(&skip); err != nil {
			return nil, err
		}
	}
	return keys, nil
}

// all object key lists of a document, depth first, with their nesting path
func allKeyLists(doc []byte, path string, out map[string][]string) {
	keys, err := jsonKeys(doc)
	if err != nil {
		return
	}
	out[path] = keys
	var m map[string]json.RawMessage
	if json.Unmarshal(doc, &m) != nil {
		return
	}
	for k, v := range m {
		if len(v) > 0 && v[0] == '{' {
			allKeyLists(v, path+"/"+k, out)
		}
	}
}

func textualValuesValid(f field.Field) bool {
	switch x := f.(type) {
	case *field.String:
		return utf8.ValidString(x.Value())
	case *field.Hex:
		return utf8.ValidString(x.Value())
	case *field.Composite:
		for _, s := range x.GetSubfields() {
			if !textualValuesValid(s) {
				return false
			}
		}
	}
	return true
}

// bits set in the packed bitmap of a message (continuation bits aside), read off the wire
func wireBits(spec *Sx, m *iso8583.Message, packed []byte) ([]int, bool) {
	sa := spec.Args()
	B, auto, enc := sa[1].List[0].Int(), sa[1].List[1].Bool(), sa[1].List[2].Atom
	if B == 0 {
		B = 8 // Length 0 is the default block of 8 bytes
	}
	pos := 0
	if _, ok := m.GetFields()[0]; ok {
		mtiPacked, err := m.GetField(0).Pack()
		if err != nil {
			return nil, false
		}
		pos = len(mtiPacked)
	}
	var bits []int
	blocks := 0
	for {
		unit := B
		if enc == "Hex" {
			unit = 2 * B
		}
		if pos+unit > len(packed) {
			return nil, false
		}
		blk := packed[pos : pos+unit]
		if enc == "Hex" {
			dec := make([]byte, B)
			if _, err := fmt.Sscanf(string(blk), "%x", &dec); err != nil {
				return nil, false
			}
			blk = dec
		}
		for i, by := range blk {
			for k := 0; k < 8; k++ {
				if by&(0x80>>uint(k)) != 0 {
					n := blocks*8*B + i*8 + k + 1
					if !(auto && n%(8*B) == 1) && n >= 2 {
						bits = append(bits, n)
					}
				}
			}
		}
		pos += unit
		blocks++
		if !auto || blk[0]&0x80 == 0 {
			break
		}
	}
	return bits, true
}

// every node of a value term as a dotted tag path below prefix
func valuePaths(v *Sx, prefix string, acc map[string]bool) {
	acc[prefix] = true
	if v != nil && v.Head() == "C" {
		for _, e := range v.List[1].List {
			valuePaths(e.List[1], prefix+"."+string(e.List[0].Hex()), acc)
		}
	}
}

// the observable value of data element id as a term (nil when absent or not printable)
func observedVal(m *iso8583.Message, id int) *Sx {
	f, ok := m.GetFields()[id]
	if !ok {
		return nil
	}
	t, err := parseSx(showVal(f))
	if err != nil {
		return nil
	}
	return t
}

func presentIDs(m *iso8583.Message) []int {
	var ids []int
	for id := range m.GetFields() {
		if id >= 2 {
			ids = append(ids, id)
		}
	}
	sort.Ints(ids)
	return ids
}

func init() {
	// ---- C12 ----
	regCheck("C12", "msg", func(a []*Sx) (bool, []Finding) {
		spec := a[0]
		if len(unrepresentableIDs(spec)) > 0 {
			return false, nil
		}
		m := replayMsg(spec, a[1].List, nil)
		packed, err := m.Pack()
		if err != nil {
			return false, nil
		}
		for _, f := range m.GetFields() {
			if !textualValuesValid(f) {
				return false, nil // JSON's own domain: valid UTF-8
			}
		}
		var fs []Finding
		doc, jerr := m.MarshalJSON()
		if jerr != nil {
			return true, []Finding{{"c12-marshal-fails", "the message packs but MarshalJSON fails: " + safeErr(jerr)}}
		}
		if !json.Valid(doc) {
			return true, []Finding{{"c12-invalid-json", "MarshalJSON produced text that is not valid JSON"}}
		}
		lists := map[string][]string{}
		allKeyLists(doc, "", lists)
		for path, keys := range lists {
			numeric := true
			var nums []int
			for _, k := range keys {
				n, err := strconv.Atoi(k)
				if err != nil {
					numeric = false
				}
				nums = append(nums, n)
			}
			seen := map[string]bool{}
			for _, k := range keys {
				if seen[k] {
					fs = append(fs, Finding{"c12-duplicate-key", "a JSON object repeats a key"})
				}
				seen[k] = true
			}
			if numeric && !sort.IntsAreSorted(nums) {
				fs = append(fs, Finding{"c12-key-order", fmt.Sprintf("keys of object %q are not in ascending numeric order: %v", path, keys)})
			}
			if !numeric && path != "" {
				// one fixed order: the same as a second encoding and as the sorted order of OrderedMap
				doc2, _ := m.MarshalJSON()
				l2 := map[string][]string{}
				allKeyLists(doc2, "", l2)
				if fmt.Sprint(l2[path]) != fmt.Sprint(keys) {
					fs = append(fs, Finding{"c12-key-order-unstable", "composite keys are not in one fixed order"})
				}
			}
		}
		// top-level keys = present field numbers
		var want []string
		for _, id := range sortedIDs(m.GetFields()) {
			want = append(want, strconv.Itoa(id))
		}
		if fmt.Sprint(lists[""]) != fmt.Sprint(want) {
			fs = append(fs, Finding{"c12-keys-vs-present", fmt.Sprintf("JSON keys %v differ from the present fields %v", lists[""], want)})
		}
		g := iso8583.NewMessage(buildMessageSpec(spec))
		if err := g.UnmarshalJSON(doc); err != nil {
			fs = append(fs, Finding{"c12-unmarshal-fails", "the document produced by MarshalJSON is rejected by UnmarshalJSON: " + safeErr(err)})
			return true, fs
		}
		if fmt.Sprint(presentIDs(g)) != fmt.Sprint(presentIDs(m)) {
			fs = append(fs, Finding{"c12-present-differs", "decoding the JSON yields a different set of present fields"})
		}
		p2, err := g.Pack()
		if err != nil || !bytes.Equal(p2, packed) {
			fs = append(fs, Finding{"c12-repack-differs", "the message decoded from JSON does not pack to the same bytes"})
		}
		return true, fs
	})

	// ---- C14: the four observers agree after every step; the packed bytes depend on observable content only ----
	regCheck("C14", "msg", func(a []*Sx) (bool, []Finding) {
		if len(a[1].List) == 1 && a[1].List[0].Head() == "note" && len(a[1].List[0].List) > 1 && a[1].List[0].List[1].Atom == "failedwrite" {
			// a write that fails part way leaves nothing behind in what is not populated (oracle_failedwrite.go)
			return true, failedWriteFindings(buildMessageSpec(a[0]))
		}
		spec := a[0]
		if len(unrepresentableIDs(spec)) > 0 {
			return false, nil
		}
		var fs []Finding
		steps := 0
		// the reference set: the data elements written since creation or the last Unpack, minus those unset since
		want := map[int]bool{}
		prevObs := map[int]*Sx{}
		known := true
		mtiWritten := false
		resync := func(m *iso8583.Message, only map[int]bool) {
			got := m.GetFields()
			for id := range got {
				if id >= 2 && (only == nil || only[id]) {
					want[id] = true
				}
			}
			for id := range want {
				if _, ok := got[id]; !ok && (only == nil || only[id]) {
					delete(want, id)
				}
			}
		}
		// a first, quiet replay: only the operations of the history and GetFields, so that nothing the oracle itself
		// does (it packs and encodes after every step below) can refresh what the library keeps between operations. After
		// a write of v to element id every node of its value was there before the write or is part of v
		{
			quiet := map[int]*Sx{}
			// the subfield of an element in which the last Unpack failed ("id.tag"): the element keeps what was decoded
			// before the failure until the next Unpack, but that subfield was discarded
			failedSub := map[int]string{}
			replayMsg(spec, a[1].List, func(i int, o *Sx, m *iso8583.Message) {
				if len(fs) > 0 || o.Head() == "get" || o.Head() == "note" {
					return
				}
				if o.Head() == "unpack" {
					failedSub = map[int]string{}
					probe := iso8583.NewMessage(buildMessageSpec(spec))
					var ue *iso8583errors.UnpackError
					if err := probe.Unpack(append([]byte(nil), o.List[1].Hex()...)); err != nil && errors.As(err, &ue) && len(ue.FieldIDs()) >= 2 {
						if fid, cerr := strconv.Atoi(ue.FieldIDs()[0]); cerr == nil {
							failedSub[fid] = ue.FieldIDs()[0] + "." + ue.FieldIDs()[1]
						}
					}
				}
				if o.Head() == "setval" && o.List[1].Int() >= 2 {
					id := o.List[1].Int()
					before := map[string]bool{}
					if pv, ok := quiet[id]; ok && pv != nil {
						valuePaths(pv, fmt.Sprint(id), before)
					}
					valuePaths(o.List[2], fmt.Sprint(id), before)
					after := map[string]bool{}
					if cur := observedVal(m, id); cur != nil {
						valuePaths(cur, fmt.Sprint(id), after)
					}
					fsub, failedHere := failedSub[id]
					delete(failedSub, id)
					for p := range after {
						if failedHere && !(p == fsub || strings.HasPrefix(p, fsub+".")) {
							// decoded by the failed Unpack before it failed: kept until the next Unpack
							continue
						}
						if !before[p] {
							fs = append(fs, Finding{"c14-resurrected", fmt.Sprintf("after step %d (setval %d) subfield %s is populated though it was neither populated before this write nor part of it", i, id, p)})
							return
						}
					}
				}
				got := m.GetFields()
				for id := range got {
					if id >= 2 {
						quiet[id] = observedVal(m, id)
					}
				}
				for id := range quiet {
					if _, ok := got[id]; !ok {
						delete(quiet, id)
					}
				}
			})
			if len(fs) > 0 {
				return true, fs
			}
		}
		failedSub2 := map[int]string{}
		replayMsg(spec, a[1].List, func(i int, o *Sx, m *iso8583.Message) {
			if len(fs) > 0 || o.Head() == "get" || o.Head() == "note" {
				return
			}
			switch o.Head() {
			case "mti":
				mtiWritten = true
			case "field", "setval":
				// whether a setter that fails leaves the element populated is not part of this reference: take it from the object
				resync(m, map[int]bool{o.List[1].Int(): true})
				if o.List[1].Int() == 0 {
					mtiWritten = true
				}
			case "unset":
				delete(want, o.List[1].Int())
				if o.List[1].Int() == 0 {
					mtiWritten = false
				}
			case "unsetp":
				if p := string(o.List[1].Hex()); !strings.Contains(p, ".") {
					if n, err := strconv.Atoi(p); err == nil {
						delete(want, n)
						if n == 0 {
							mtiWritten = false
						}
					}
				}
			case "fromjson":
				only := map[int]bool{}
				if keys, err := jsonKeys(renderJdoc(o.List[1])); err == nil {
					for _, k := range keys {
						if n, err := strconv.Atoi(k); err == nil {
							only[n] = true
							if n == 0 {
								_, mtiWritten = m.GetFields()[0]
							}
						}
					}
					resync(m, only)
				} else {
					known = false
				}
			case "unpack":
				want = map[int]bool{}
				resync(m, nil)
				_, mtiWritten = m.GetFields()[0]
				known = true
			case "clone":
				// the clone is a new message built by Pack / Unpack: it holds what the original held - provided the
				// original is a message (has an MTI); otherwise the clone is whatever Unpack made of the bytes
				if !mtiWritten {
					want = map[int]bool{}
					resync(m, nil)
					_, mtiWritten = m.GetFields()[0]
				}
			}
			if known {
				var w []int
				for id := range want {
					w = append(w, id)
				}
				sort.Ints(w)
				if fmt.Sprint(w) != fmt.Sprint(presentIDs(m)) {
					fs = append(fs, Finding{"c14-present-set", fmt.Sprintf("after step %d (%s) GetFields reports %v, but the elements written and not unset since creation / the last Unpack are %v", i, o.Head(), presentIDs(m), w)})
					return
				}
				if _, has := m.GetFields()[0]; has != mtiWritten {
					fs = append(fs, Finding{"c14-present-set:mti", fmt.Sprintf("after step %d (%s) the MTI is reported present=%v, written and not unset=%v", i, o.Head(), has, mtiWritten)})
					return
				}
			}
			// unsetting discards everything below; later writes never bring anything back: after a write of v to element id
			// every node of its value was there before the write or is part of v, and after unsetting a path no node at or
			// below that path remains
			switch o.Head() {
			case "setval":
				id := o.List[1].Int()
				if id >= 2 {
					before := map[string]bool{}
					if pv, ok := prevObs[id]; ok && pv != nil {
						valuePaths(pv, fmt.Sprint(id), before)
					}
					valuePaths(o.List[2], fmt.Sprint(id), before)
					after := map[string]bool{}
					if cur := observedVal(m, id); cur != nil {
						valuePaths(cur, fmt.Sprint(id), after)
					}
					fsub, failedHere := failedSub2[id]
					delete(failedSub2, id)
					for p := range after {
						if failedHere && !(p == fsub || strings.HasPrefix(p, fsub+".")) {
							continue
						}
						if !before[p] {
							fs = append(fs, Finding{"c14-resurrected", fmt.Sprintf("after step %d (setval %d) subfield %s is populated though it was neither populated before this write nor part of it", i, id, p)})
							return
						}
					}
				}
			case "unpack":
				failedSub2 = map[int]string{}
				probe := iso8583.NewMessage(buildMessageSpec(spec))
				var ue *iso8583errors.UnpackError
				if err := probe.Unpack(append([]byte(nil), o.List[1].Hex()...)); err != nil && errors.As(err, &ue) && len(ue.FieldIDs()) >= 2 {
					if fid, cerr := strconv.Atoi(ue.FieldIDs()[0]); cerr == nil {
						failedSub2[fid] = ue.FieldIDs()[0] + "." + ue.FieldIDs()[1]
					}
				}
			case "unsetp":
				path := string(o.List[1].Hex())
				if n, err := strconv.Atoi(strings.SplitN(path, ".", 2)[0]); err == nil && n >= 2 {
					after := map[string]bool{}
					if cur := observedVal(m, n); cur != nil {
						valuePaths(cur, fmt.Sprint(n), after)
					}
					for p := range after {
						if p == path || strings.HasPrefix(p, path+".") {
							fs = append(fs, Finding{"c14-unset-remains", fmt.Sprintf("after step %d (unset %s) subfield %s is still populated", i, path, p)})
							return
						}
					}
				}
			}
			for id := range m.GetFields() {
				if id >= 2 {
					prevObs[id] = observedVal(m, id)
				}
			}
			for id := range prevObs {
				if _, ok := m.GetFields()[id]; !ok {
					delete(prevObs, id)
				}
			}
			steps++
			ids := presentIDs(m)
			packed, err := m.Pack()
			if err != nil {
				return
			}
			if fmt.Sprint(presentIDs(m)) != fmt.Sprint(ids) {
				fs = append(fs, Finding{"c14-pack-changes-present", "Pack changed the set of present data elements"})
				return
			}
			bits, ok := wireBits(spec, m, packed)
			if ok && fmt.Sprint(bits) != fmt.Sprint(ids) {
				fs = append(fs, Finding{"c14-bitmap-vs-getfields", fmt.Sprintf("after step %d (%s) the packed bitmap announces %v, GetFields reports %v", i, o.Head(), bits, ids)})
				return
			}
			if doc, err := m.MarshalJSON(); err == nil {
				keys, _ := jsonKeys(doc)
				var jids []int
				for _, k := range keys {
					if n, err := strconv.Atoi(k); err == nil && n >= 2 {
						jids = append(jids, n)
					}
				}
				if fmt.Sprint(jids) != fmt.Sprint(ids) {
					fs = append(fs, Finding{"c14-json-vs-getfields", fmt.Sprintf("after step %d (%s) JSON has fields %v, GetFields reports %v", i, o.Head(), jids, ids)})
					return
				}
			}
			// no stale data: a fresh message given exactly the observable values packs to the same bytes
			fresh := iso8583.NewMessage(buildMessageSpec(spec))
			fields := m.GetFields()
			for _, id := range sortedIDs(fields) {
				if id == 1 {
					continue
				}
				vt, err := parseSx(showVal(fields[id]))
				if err != nil {
					return
				}
				if id == 0 {
					s, _ := fields[0].String()
					fresh.MTI(s)
				} else {
					runOneMsgOp(fresh, op("setval", I(id), vt))
				}
			}
			p2, err := fresh.Pack()
			if err != nil || !bytes.Equal(p2, packed) {
				fs = append(fs, Finding{"c14-stale-data", fmt.Sprintf("after step %d (%s) the message packs differently from a fresh message holding exactly the observable values", i, o.Head())})
			}
		})
		return steps > 0, fs
	})

	// ---- C15 ----
	regCheck("C15", "msg", func(a []*Sx) (bool, []Finding) {
		spec := a[0]
		m := replayMsg(spec, a[1].List, nil)
		var fs []Finding
		obs := func(x *iso8583.Message) string {
			p, perr := x.Pack()
			j, jerr := x.MarshalJSON()
			var d bytes.Buffer
			derr := iso8583.Describe(x, &d, iso8583.DoNotFilterFields()...)
			return fmt.Sprintf("%x|%v|%s|%v|%s|%v|%s", p, perr != nil, j, jerr != nil, d.String(), derr != nil, showPresent(x))
		}
		o1 := obs(m)
		for k := 0; k < 3; k++ {
			if obs(m) != o1 {
				fs = append(fs, Finding{"c15-not-repeatable", "Pack / JSON / Describe differ between repeated calls on the same message"})
				return true, fs
			}
		}
		_, hasMTI := m.GetFields()[0]
		// (a message whose MTI was never set packs without one and cannot be read back: outside the property)
		// (nor can a message in which a positional composite is populated with gaps - subfields 1 and 3 without 2: its
		// encoding reads back as subfields 1 and 2. Such states arise when a write follows a failed Unpack directly)
		if c, err := m.Clone(); err == nil && hasMTI && len(unrepresentableIDs(spec)) == 0 && positionalFromFront(spec, m) {
			if o := obs(m); o != o1 {
				fs = append(fs, Finding{"c15-clone-changes-original", "Clone changed what the original message shows"})
			}
			p1, _ := m.Pack()
			pc, _ := c.Pack()
			if !bytes.Equal(p1, pc) {
				fs = append(fs, Finding{"c15-clone-differs", "a clone packs to different bytes than its original"})
			}
			if fmt.Sprint(presentIDs(c)) != fmt.Sprint(presentIDs(m)) {
				fs = append(fs, Finding{"c15-clone-loses-fields", "a clone has a different set of present fields"})
			}
			// independence: changing the clone must not show in the original, and vice versa. First without touching the
			// original at all (obs packs it, which would refresh anything the two share): what Describe shows of the
			// original stays what it was while the clone loses a subfield of every composite and is packed and encoded
			descOnly := func(x *iso8583.Message) string {
				var d bytes.Buffer
				derr := iso8583.Describe(x, &d, iso8583.DoNotFilterFields()...)
				return fmt.Sprintf("%s|%v", d.String(), derr != nil)
			}
			d0 := descOnly(m)
			for _, id := range presentIDs(c) {
				if cf, ok := c.GetField(id).(*field.Composite); ok {
					for _, t := range sortedKeys(cf.GetSubfields()) {
						cf.UnsetSubfield(t)
						break
					}
				}
			}
			c.Pack()
			c.MarshalJSON()
			if descOnly(m) != d0 {
				fs = append(fs, Finding{"c15-clone-shares-state", "packing a modified clone changed what Describe shows of the original"})
			}
			for _, id := range presentIDs(c) {
				c.UnsetField(id)
			}
			c.MTI("9999")
			if obs(m) != o1 {
				fs = append(fs, Finding{"c15-clone-shares-state", "changing the clone changed the original"})
			}
			c2, err := m.Clone()
			if err == nil {
				oc := obs(c2)
				for _, id := range presentIDs(m) {
					if cf, ok := m.GetField(id).(*field.Composite); ok {
						for t := range cf.GetSubfields() {
							cf.UnsetSubfield(t)
							break
						}
					} else {
						m.UnsetField(id)
					}
				}
				if obs(c2) != oc {
					fs = append(fs, Finding{"c15-clone-shares-state", "changing the original changed the clone"})
				}
			}
		}
		// population order: the setval/mti/field prefix of the history applied in another order gives the same encodings
		var sets []*Sx
		for _, o := range a[1].List {
			if o.Head() == "setval" || o.Head() == "mti" {
				sets = append(sets, o)
			} else if o.Head() != "get" {
				break
			}
		}
		distinct := map[string]bool{}
		for _, o := range sets {
			if o.Head() == "mti" {
				distinct["mti"] = true
			} else {
				distinct["setval"+o.List[1].Atom] = true
			}
		}
		if len(sets) >= 2 && len(distinct) == len(sets) {
			m1, _ := msgFromOps(spec, sets)
			rev := make([]*Sx, len(sets))
			for i, o := range sets {
				rev[len(sets)-1-i] = o
			}
			m2, _ := msgFromOps(spec, rev)
			if obs(m1) != obs(m2) {
				fs = append(fs, Finding{"c15-population-order", "the same fields populated in another order pack / encode differently"})
			}
		}
		return true, fs
	})
	// caller-owned memory: values handed to setters as slices with sentinel-filled spare capacity
	regCheck("C15", "fld", func(a []*Sx) (bool, []Finding) {
		spec := a[0]
		v := firstOpArg(a[1].List, "set")
		if v == nil || spec.Head() != "P" {
			return false, nil
		}
		raw, ok := refRaw(v)
		if !ok {
			return false, nil
		}
		f := buildField(spec)
		spare := []byte("\xA5\xA5\xA5\xA5\xA5\xA5\xA5\xA5\xA5\xA5\xA5\xA5\xA5\xA5\xA5\xA5\xA5\xA5\xA5\xA5")
		buf := sliceWithSpare(raw, spare)
		if spec.List[1].Atom == "Hex" {
			return false, nil
		}
		if err := f.SetBytes(buf); err != nil {
			return false, nil
		}
		f.Pack()
		json.Marshal(f)
		f.String()
		var fs []Finding
		if !bytes.Equal(buf[len(raw):cap(buf)], spare) {
			fs = append(fs, Finding{"c15-writes-spare:" + spec.List[2].Atom + ":" + spec.List[5].Atom, "packing a field wrote into the spare capacity behind the caller's slice"})
		}
		if !bytes.Equal(buf[:len(raw)], raw) {
			fs = append(fs, Finding{"c15-writes-caller-slice", "packing a field modified the caller's slice"})
		}
		return true, fs
	})
}

var _ = strings.Join

// positionalFromFront: in every populated data element every positional composite, at any depth, is populated from the
// front of its order (the domain of the round trip: DESIGN.md section 2.2)
func positionalFromFront(spec *Sx, m *iso8583.Message) bool {
	var ok func(sp, val *Sx) bool
	ok = func(sp, val *Sx) bool {
		if sp.Head() != "C" || val == nil || val.Head() != "C" || len(val.List) < 2 {
			return true
		}
		a := sp.Args()
		subSpec := map[string]*Sx{}
		var tags []string
		for _, s := range a[3].List {
			t := string(s.List[0].Hex())
			subSpec[t] = s.List[1]
			tags = append(tags, t)
		}
		present := map[string]*Sx{}
		for _, e := range val.List[1].List {
			present[string(e.List[0].Hex())] = e.List[1]
		}
		if a[2].Head() == "T" && a[2].Args()[1].Atom == "nil" {
			order := refSort(a[2].Args()[4].Atom, tags)
			for i, t := range order {
				if _, there := present[t]; there != (i < len(present)) {
					return false
				}
			}
		}
		for t, v := range present {
			if ss, known := subSpec[t]; known && !ok(ss, v) {
				return false
			}
		}
		return true
	}
	for _, f := range spec.Args()[2].List {
		id := f.List[0].Int()
		if v := observedVal(m, id); v != nil && !ok(f.List[1], v) {
			return false
		}
	}
	return true
}
