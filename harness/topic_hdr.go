package main

import (
	"bytes"
	"fmt"
	"io"

	"github.com/moov-io/iso8583/network"
)

// chunkReader delivers the given chunks, one Read call per (rest of a) chunk, then io.EOF.
type chunkReader struct{ chunks [][]byte }

func (c *chunkReader) Read(p []byte) (int, error) {
	for len(c.chunks) > 0 && len(c.chunks[0]) == 0 {
		c.chunks = c.chunks[1:]
	}
	if len(c.chunks) == 0 {
		return 0, io.EOF
	}
	n := copy(p, c.chunks[0])
	c.chunks[0] = c.chunks[0][n:]
	return n, nil
}
func (c *chunkReader) rest() []byte {
	var out []byte
	for _, ch := range c.chunks {
		out = append(out, ch...)
	}
	return out
}

type hdrObj interface {
	WriteTo(w io.Writer) (int, error)
	ReadFrom(r io.Reader) (int, error)
	Length() int
}

func newHdr(kind string) hdrObj {
	switch kind {
	case "Binary2":
		return network.NewBinary2BytesHeader()
	case "ASCII4":
		return network.NewASCII4BytesHeader()
	case "BCD2":
		return network.NewBCD2BytesHeader()
	}
	return network.NewVMLHeader()
}

func hdrSet(h hdrObj, n int) error {
	switch x := h.(type) {
	case *network.Binary2Bytes:
		return x.SetLength(n)
	case *network.VMLH:
		return x.SetLength(n)
	case *network.ASCII4BytesHeader:
		x.SetLength(n)
	case *network.BCD2BytesHeader:
		x.SetLength(n)
	}
	return nil
}

var hdrKinds = []string{"Binary2", "ASCII4", "BCD2", "VMLH"}
var hdrSize = map[string]int{"Binary2": 2, "ASCII4": 4, "BCD2": 2, "VMLH": 4}

func init() {
	executors["hdr.set"] = func(a []*Sx) string {
		h := newHdr(a[0].Atom)
		if err := hdrSet(h, a[1].Int()); err != nil {
			return "err"
		}
		return fmt.Sprintf("ok %d", h.Length())
	}
	executors["hdr.write"] = func(a []*Sx) string {
		h := newHdr(a[0].Atom)
		if err := hdrSet(h, a[1].Int()); err != nil {
			return "seterr"
		}
		var buf bytes.Buffer
		n, err := h.WriteTo(&buf)
		if err != nil {
			return "err"
		}
		return fmt.Sprintf("ok %s %d", xh(buf.Bytes()), n)
	}
	executors["hdr.read"] = func(a []*Sx) string {
		h := newHdr(a[0].Atom)
		var chunks [][]byte
		for _, c := range a[1].List {
			chunks = append(chunks, c.Hex())
		}
		r := &chunkReader{chunks}
		n, err := h.ReadFrom(r)
		if err != nil {
			return "err"
		}
		sess := "0"
		if v, ok := h.(*network.VMLH); ok && v.IsSessionControl {
			sess = "1"
		}
		return fmt.Sprintf("ok %d %d %s %s", h.Length(), n, sess, xh(r.rest()))
	}
	generators["hdr"] = func(r *Rng, tier string, emit func(*Sx)) {
		thorough := tier == "thorough"
		chunked := func(d []byte, mode int) *Sx {
			var cs []*Sx
			switch mode {
			case 0:
				cs = append(cs, X(d))
			case 1:
				for _, b := range d {
					cs = append(cs, X([]byte{b}))
				}
			default:
				for len(d) > 0 {
					k := r.Intn(len(d) + 1)
					cs = append(cs, X(d[:k]))
					d = d[k:]
				}
			}
			return L(cs...)
		}
		for _, k := range hdrKinds {
			step := 7
			if thorough {
				step = 1
			}
			for n := -2; n <= 70000; n++ {
				if !(n < 300 || n%step == 0 || (n > 9990 && n < 10010) || (n > 65500 && n < 65600) || (n > 2040 && n < 2060)) {
					continue
				}
				emit(L(A("hdr.set"), A(k), I(n)))
				emit(L(A("hdr.write"), A(k), I(n)))
				// write, then read back through a reader fragmented in every way
				h := newHdr(k)
				if hdrSet(h, n) != nil {
					continue
				}
				var buf bytes.Buffer
				if _, err := h.WriteTo(&buf); err != nil {
					continue
				}
				d := append(buf.Bytes(), r.Bytes(r.Intn(3))...)
				emit(L(A("hdr.read"), A(k), chunked(d, 1)))
				if n < 300 || thorough {
					emit(L(A("hdr.read"), A(k), chunked(d, 2)))
				}
			}
			for _, n := range []int{-1 << 63, -65536, -65000, -1000, 1 << 31, 1 << 32, 1<<63 - 1, 99999, 100000} {
				emit(L(A("hdr.set"), A(k), I(n)))
				emit(L(A("hdr.write"), A(k), I(n)))
			}
			// all two-byte contents (four-byte headers: two arbitrary bytes inside an otherwise plausible header), sampled four-byte contents
			for v := 0; v < 65536; v++ {
				if !thorough && hdrSize[k] == 4 && v%5 != 0 {
					continue
				}
				d := []byte{byte(v >> 8), byte(v)}
				if hdrSize[k] == 4 {
					switch k {
					case "ASCII4":
						d = [][]byte{{'0', '0', d[0], d[1]}, {d[0], d[1], '0', '1'}, {'0', d[0], d[1], '7'}}[v%3]
					default:
						d = [][]byte{{d[0], d[1], 0, 0}, {0, d[0], d[1], 0x20}, {0x01, 0x02, d[0], d[1]}}[v%3]
					}
				}
				emit(L(A("hdr.read"), A(k), chunked(append(d, byte(v)), v%3)))
			}
			n4 := 3000
			if thorough {
				n4 = 60000
			}
			for i := 0; i < n4; i++ {
				d := r.Bytes(r.Intn(8))
				if k == "ASCII4" && r.Bool() {
					d = r.From([]byte("0123456789+- "), r.Intn(7))
				}
				emit(L(A("hdr.read"), A(k), chunked(d, r.Intn(3))))
			}
			// early end at every offset, every split point
			full := []byte{0x00, 0x12, 0x00, 0x00, 0x55}
			if k == "ASCII4" {
				full = []byte("0123X")
			}
			for cut := 0; cut <= len(full); cut++ {
				for split := 0; split <= cut; split++ {
					emit(L(A("hdr.read"), A(k), L(X(full[:split]), X(full[split:cut]))))
					emit(L(A("hdr.read"), A(k), L(X(full[:split]), X(nil), X(full[split:cut]), X(nil))))
				}
			}
		}
	}
}

// ---- C16 oracle ----
func hdrRepresentable(k string, n int) bool {
	switch k {
	case "Binary2":
		return n >= 0 && n <= 65535
	case "VMLH":
		return n >= 0 && n <= 2048
	}
	return n >= 0 && n <= 9999
}

func hdrFormat(k string, n int) []byte {
	switch k {
	case "Binary2":
		return []byte{byte(n >> 8), byte(n)}
	case "VMLH":
		return []byte{byte(n >> 8), byte(n), 0, 0}
	case "ASCII4":
		return []byte(fmt.Sprintf("%d%d%d%d", n/1000%10, n/100%10, n/10%10, n%10))
	}
	return []byte{byte(n/1000%10<<4 | n/100%10), byte(n/10%10<<4 | n%10)}
}

func init() {
	regCheck("C16", "hdr.write", func(a []*Sx) (bool, []Finding) {
		k, n := a[0].Atom, a[1].Int()
		var fs []Finding
		add := func(key, w string) { fs = append(fs, Finding{key + ":" + k, w}) }
		h := newHdr(k)
		var buf bytes.Buffer
		err := hdrSet(h, n)
		var wn int
		if err == nil {
			wn, err = h.WriteTo(&buf)
		}
		if !hdrRepresentable(k, n) {
			if err == nil {
				add("unrepresentable-accepted", fmt.Sprintf("length %d cannot be represented but SetLength and WriteTo both succeed (wrote %x)", n, buf.Bytes()))
			}
			return false, fs
		}
		if err != nil {
			add("representable-refused", "a representable length is refused")
			return true, fs
		}
		if wn != hdrSize[k] || !bytes.Equal(buf.Bytes(), hdrFormat(k, n)) {
			add("write-format", fmt.Sprintf("WriteTo emitted %x (returned %d), expected %x", buf.Bytes(), wn, hdrFormat(k, n)))
			return true, fs
		}
		// read it back from a reader that delivers one byte at a time, with data following
		var chunks [][]byte
		for _, b := range append(buf.Bytes(), 0xAA, 0xBB) {
			chunks = append(chunks, []byte{b})
		}
		r := &chunkReader{chunks}
		h2 := newHdr(k)
		rn, err := h2.ReadFrom(r)
		if err != nil || h2.Length() != n || rn != hdrSize[k] || !bytes.Equal(r.rest(), []byte{0xAA, 0xBB}) {
			add("roundtrip", fmt.Sprintf("ReadFrom after WriteTo: length %d read %d err %v rest %x", h2.Length(), rn, err, r.rest()))
		}
		return true, fs
	})
	regCheck("C16", "hdr.read", func(a []*Sx) (bool, []Finding) {
		k := a[0].Atom
		var chunks [][]byte
		total := 0
		for _, c := range a[1].List {
			chunks = append(chunks, c.Hex())
			total += len(c.Hex())
		}
		r := &chunkReader{chunks}
		h := newHdr(k)
		rn, err := h.ReadFrom(r)
		if err != nil {
			return false, nil
		}
		var fs []Finding
		if h.Length() < 0 {
			fs = append(fs, Finding{"read-negative:" + k, fmt.Sprintf("ReadFrom reports the negative length %d", h.Length())})
		}
		if rn != hdrSize[k] || total-len(r.rest()) != hdrSize[k] {
			fs = append(fs, Finding{"read-consumed:" + k, "ReadFrom did not consume exactly the header size"})
		}
		return true, fs
	})
	regCheck("C16", "hdr.set", func(a []*Sx) (bool, []Finding) { return false, nil })
}
