module verif/harness

go 1.23.0

require github.com/moov-io/iso8583 v0.0.0

require (
	github.com/yerden/go-util v1.1.4 // indirect
	golang.org/x/text v0.23.0 // indirect
)

replace github.com/moov-io/iso8583 => /repo
