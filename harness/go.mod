module verif/harness

go 1.23.0

require github.com/moov-io/iso8583 v0.0.0

replace github.com/moov-io/iso8583 => /repo
