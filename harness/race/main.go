// Race / linearizability stress for C13: k goroutines issue random mixes of the property's operations on one
// shared Message and one shared Composite. Built with -race: a data race makes the runtime print a report and
// exit with status 66; a deadlock shows as a timeout; every Pack result must decode and every value in it must be
// one that some goroutine wrote (or the initial one).
package main

import (
	"encoding/json"
	"fmt"
	"math/rand"
	"os"
	"strconv"
	"sync"
	"time"

	"github.com/moov-io/iso8583"
	"github.com/moov-io/iso8583/encoding"
	"github.com/moov-io/iso8583/field"
	"github.com/moov-io/iso8583/prefix"
	"github.com/moov-io/iso8583/sort"
)

var spec = &iso8583.MessageSpec{
	Name: "race",
	Fields: map[int]field.Field{
		0:  field.NewString(&field.Spec{Length: 4, Description: "MTI", Enc: encoding.ASCII, Pref: prefix.ASCII.Fixed}),
		1:  field.NewBitmap(&field.Spec{Description: "Bitmap", Enc: encoding.Binary, Pref: prefix.Binary.Fixed}),
		2:  field.NewString(&field.Spec{Length: 19, Description: "PAN", Enc: encoding.ASCII, Pref: prefix.ASCII.LL}),
		3:  field.NewNumeric(&field.Spec{Length: 12, Description: "Amount", Enc: encoding.ASCII, Pref: prefix.ASCII.LL}),
		4:  field.NewString(&field.Spec{Length: 20, Description: "Text", Enc: encoding.ASCII, Pref: prefix.ASCII.LL}),
		55: field.NewComposite(compSpec),
		70: field.NewString(&field.Spec{Length: 10, Description: "High", Enc: encoding.ASCII, Pref: prefix.ASCII.LL}),
	},
}

var compSpec = &field.Spec{
	Length: 999, Description: "TLV", Pref: prefix.ASCII.LLL,
	Tag: &field.TagSpec{Length: 2, Enc: encoding.ASCII, Sort: sort.StringsByInt},
	Subfields: map[string]field.Field{
		"01": field.NewString(&field.Spec{Length: 10, Description: "a", Enc: encoding.ASCII, Pref: prefix.ASCII.LL}),
		"02": field.NewString(&field.Spec{Length: 10, Description: "b", Enc: encoding.ASCII, Pref: prefix.ASCII.LL}),
		"03": field.NewNumeric(&field.Spec{Length: 10, Description: "c", Enc: encoding.ASCII, Pref: prefix.ASCII.LL}),
	},
}

type data struct {
	F2  *field.String  `index:"2"`
	F3  *field.Numeric `index:"3"`
	F55 *sub           `index:"55"`
}
type sub struct {
	A *field.String `index:"01"`
	B *field.String `index:"02"`
}

// written and packed as a whole only: every Pack shows one writer's values in all positions
type whole struct {
	F2  *field.String `index:"2"`
	F4  *field.String `index:"4"`
	F70 *field.String `index:"70"`
}

func main() {
	seed, _ := strconv.ParseInt(os.Args[1], 10, 64)
	k, _ := strconv.Atoi(os.Args[2])
	n, _ := strconv.Atoi(os.Args[3])
	m := iso8583.NewMessage(spec)
	m.MTI("0100")
	c := field.NewComposite(compSpec)
	c2 := field.NewComposite(compSpec)
	m2 := iso8583.NewMessage(spec)
	m2.MTI("0100")
	c3 := field.NewComposite(compSpec)
	m3 := iso8583.NewMessage(spec)
	m3.MTI("0100")
	var torn []string
	var mu sync.Mutex
	var packs [][]byte
	written := map[string]bool{"": true}
	var wg sync.WaitGroup
	done := make(chan struct{})
	for g := 0; g < k; g++ {
		wg.Add(1)
		go func(g int) {
			defer wg.Done()
			r := rand.New(rand.NewSource(seed*1000 + int64(g)))
			for i := 0; i < n; i++ {
				val := fmt.Sprintf("g%dn%05d", g, i)
				num := int64(g*1000000 + i)
				mu.Lock()
				written[val] = true
				written[fmt.Sprint(num)] = true
				mu.Unlock()
				op := r.Intn(36)
				if i >= n-n/3 {
					// last third: only the grouped write / grouped unset / pack operations, so that the
					// window between two acquisitions of a call that should hold the lock once is hit often
					op = 32 + r.Intn(4)
				}
				switch op {
				case 32:
					short := val[:5]
					c3.Marshal(&sub{A: field.NewStringValue(short), B: field.NewStringValue(short)})
				case 33:
					// one call that unsets both subfields: a Pack sees both or neither
					c3.UnsetSubfields("01", "02")
				case 34:
					if p, err := c3.Pack(); err == nil && len(p) != 21 && len(p) != 3 {
						mu.Lock()
						torn = append(torn, fmt.Sprintf("composite packed %q: one of two subfields that are written and unset together", p))
						mu.Unlock()
					}
				case 35:
					m3.UnsetFields("2", "4", "70")
					short := val[:5]
					m3.Marshal(&whole{F2: field.NewStringValue(short), F4: field.NewStringValue(short), F70: field.NewStringValue(short)})
					if p, err := m3.Pack(); err == nil {
						g := iso8583.NewMessage(spec)
						if g.Unpack(p) == nil {
							n := len(g.GetFields())
							if n != 2 && n != 5 {
								mu.Lock()
								torn = append(torn, fmt.Sprintf("message packed %d fields: three fields are written and unset together", n))
								mu.Unlock()
							}
						}
					}
				case 26:
					// operations that fail must leave the object usable (no lock left behind)
					m.Field(999, val)
					m.BinaryField(998, []byte(val))
					m.UnsetFields("2.1")
					m.Marshal(data{})
					m.Unmarshal(data{})
				case 27:
					c.Marshal(sub{})
					c.Unmarshal(sub{})
					c.UnsetSubfields("01.1")
					c.Unpack([]byte("9"))
					c.SetBytes([]byte("99"))
				case 28:
					short := val[:5]
					c2.Marshal(&sub{A: field.NewStringValue(short), B: field.NewStringValue(short)})
				case 29:
					if p, err := c2.Pack(); err == nil && len(p) == 21 && string(p[7:12]) != string(p[16:21]) {
						mu.Lock()
						torn = append(torn, fmt.Sprintf("composite packed %q: the two subfields come from different Marshal calls", p))
						mu.Unlock()
					}
				case 30:
					short := val[:5]
					m2.Marshal(&whole{F2: field.NewStringValue(short), F4: field.NewStringValue(short), F70: field.NewStringValue(short)})
				case 31:
					if p, err := m2.Pack(); err == nil {
						g := iso8583.NewMessage(spec)
						if g.Unpack(p) == nil {
							a, _ := g.GetString(2)
							b, _ := g.GetString(4)
							d, _ := g.GetString(70)
							if a != b || b != d {
								mu.Lock()
								torn = append(torn, fmt.Sprintf("message packed fields 2=%q 4=%q 70=%q: they come from different Marshal calls", a, b, d))
								mu.Unlock()
							}
						}
					}
				case 0:
					m.MTI([]string{"0100", "0200", "0800"}[r.Intn(3)])
				case 1:
					m.Field([]int{2, 4, 70}[r.Intn(3)], val)
				case 2:
					m.BinaryField(3, []byte(fmt.Sprint(num)))
				case 3:
					m.Marshal(&data{F2: field.NewStringValue(val), F3: field.NewNumericValue(num), F55: &sub{A: field.NewStringValue(val)}})
				case 4:
					var d data
					m.Unmarshal(&d)
				case 5, 6:
					if p, err := m.Pack(); err == nil {
						mu.Lock()
						packs = append(packs, p)
						mu.Unlock()
					}
				case 7:
					m.Unpack([]byte("0200" + "\x60\x00\x00\x00\x00\x00\x00\x00" + "05" + val[:5] + "03123"))
					mu.Lock()
					written[val[:5]] = true
					written["123"] = true
					mu.Unlock()
				case 8:
					json.Marshal(m)
				case 9:
					json.Unmarshal([]byte(fmt.Sprintf(`{"2":%q,"3":%d}`, val, num)), m)
				case 10:
					m.GetFields()
				case 11:
					m.Bitmap()
				case 12:
					if cl, err := m.Clone(); err == nil {
						cl.Pack()
					}
				case 13:
					m.UnsetField([]int{2, 3, 4, 70}[r.Intn(4)])
				case 14:
					m.UnsetFields([]string{"2", "55.01", "55", "70", "3"}[r.Intn(5)])
				case 15:
					c.Marshal(&sub{A: field.NewStringValue(val), B: field.NewStringValue(val)})
				case 16:
					var s sub
					c.Unmarshal(&s)
				case 17:
					c.Pack()
				case 18:
					c.Unpack([]byte("0090105" + val[:5]))
				case 19:
					c.SetBytes([]byte("0205" + val[:5]))
				case 20:
					c.Bytes()
					c.String()
				case 21:
					json.Marshal(c)
				case 22:
					json.Unmarshal([]byte(fmt.Sprintf(`{"01":%q}`, val)), c)
				case 23:
					c.GetSubfields()
					c.Bitmap()
				case 24:
					c.UnsetSubfield([]string{"01", "02", "03"}[r.Intn(3)])
				case 25:
					c.UnsetSubfields([]string{"01", "02", "03"}[r.Intn(3)])
				}
			}
		}(g)
	}
	go func() { wg.Wait(); close(done) }()
	select {
	case <-done:
	case <-time.After(45 * time.Second):
		fmt.Println("DEADLOCK-OR-HANG")
		os.Exit(3)
	}
	// every Pack result is the encoding of a state some sequential order reaches: it decodes, and every value in it
	// was written by somebody
	bad := 0
	for _, t := range torn {
		fmt.Printf("TORN-PACK %s\n", t)
		bad++
		if bad > 3 {
			break
		}
	}
	for _, p := range packs {
		g := iso8583.NewMessage(spec)
		if err := g.Unpack(p); err != nil {
			fmt.Printf("TORN-PACK undecodable %x: %v\n", p, err)
			bad++
			continue
		}
		for id, f := range g.GetFields() {
			if id < 2 {
				continue
			}
			if cf, ok := f.(*field.Composite); ok {
				for _, sf := range cf.GetSubfields() {
					s, _ := sf.String()
					if !written[s] {
						fmt.Printf("TORN-PACK subfield value %q never written\n", s)
						bad++
					}
				}
				continue
			}
			s, _ := f.String()
			if !written[s] {
				fmt.Printf("TORN-PACK field %d value %q never written\n", id, s)
				bad++
			}
		}
	}
	fmt.Printf("RACE-RUN ok goroutines=%d ops=%d packs=%d torn=%d\n", k, k*n, len(packs), bad)
	if bad > 0 {
		os.Exit(4)
	}
}
