package main

import (
	"bytes"
	"fmt"
)

// adversarial length encodings (C04): BER long forms, values around 2^31 / 2^32 / 2^63, maximal decimal
// prefixes, continuation-bit chains, at every place a length is read off the wire.
func berAdversarial(r *Rng) [][]byte {
	var out [][]byte
	vals := []uint64{0, 1, 127, 128, 255, 256, 65535, 1<<31 - 1, 1 << 31, 1<<32 - 1, 1 << 32, 1<<62 + 3, 1<<63 - 1, 1 << 63, 1<<64 - 1}
	for d := uint64(0); d < 24; d++ {
		vals = append(vals, (1<<63-1)-d)
	}
	for _, v := range vals {
		for _, k := range []int{1, 2, 4, 8, 9} {
			be := make([]byte, k)
			x := v
			for i := k - 1; i >= 0; i-- {
				be[i] = byte(x)
				x >>= 8
			}
			out = append(out, append([]byte{0x80 | byte(k)}, be...))
		}
	}
	for _, k := range []int{0, 3, 16, 126, 127} {
		out = append(out, append([]byte{0x80 | byte(k)}, bytes.Repeat([]byte{0xff}, k)...))
		out = append(out, append([]byte{0x80 | byte(k)}, r.Bytes(k)...))
	}
	out = append(out, []byte{0x88, 0x7f}, []byte{0xff}, []byte{0x84, 0x7f, 0xff})
	return out
}

func init() {
	generators["adv"] = func(r *Rng, tier string, emit func(*Sx)) {
		reps := 12
		if tier == "thorough" {
			reps = 120
		}
		unp := func(spec *Sx, d []byte) {
			emit(L(A("fld"), spec, L(op("unpack", X(d)), op("get"), op("setbytes", X(d)))))
		}
		for rep := 0; rep < reps; rep++ {
			bers := berAdversarial(r)
			// a. primitive fields under a BerTLV prefix, with and without a maximum
			for _, enc := range []string{"ASCII", "Binary", "BCD", "LBCD", "Hex", "EBCDIC", "EBCDIC1047"} {
				for _, L_ := range []int{0, 10, 1 << 20} {
					kind := Pick(r, []string{"String", "Binary", "Numeric", "Hex"})
					if (kind == "Binary" || kind == "Hex") && (enc == "BCD" || enc == "LBCD" || enc == "EBCDIC1047") {
						kind = "String"
					}
					spec := L(A("P"), A(kind), A(enc), A("BerTLV"), I(L_), A("N"), X([]byte{0}), A("D"))
					for _, b := range bers {
						if rep > 0 && !r.Chance(1, 6) {
							continue
						}
						unp(spec, append(append([]byte(nil), b...), r.From([]byte("0123456789"), r.Intn(5))...))
					}
				}
			}
			// b. TLV composites with skipping: valid elements, then an unknown tag with an adversarial length
			for i := 0; i < 6; i++ {
				n := genTLVComp(r, 1)
				skipOn := n.term.List[3].List[6].Bool()
				if !skipOn {
					continue
				}
				v := genValue(r, n)
				packed := packedOf(n.term, v)
				if packed == nil {
					continue
				}
				// body without the composite's own prefix: re-wrap under SetBytes (no prefix) and Unpack (with prefix)
				f := buildField(n.term)
				applyVal(f, v)
				body, err := f.Bytes()
				if err != nil {
					continue
				}
				var tagWire []byte
				if n.mode == "ber" {
					tagWire = A("x" + fmt.Sprintf("%x", []byte{0xdf, 0x7e})).Hex()
				} else {
					continue
				}
				for _, b := range bers {
					if !r.Chance(1, 3) {
						continue
					}
					nb := append(append(append([]byte(nil), body...), tagWire...), b...)
					nb = append(nb, r.Bytes(r.Intn(3))...)
					emit(L(A("fld"), n.term, L(op("setbytes", X(nb)), op("get"))))
					pre, err := prefixers[n.pref].EncodeLength(1<<30, len(nb))
					if err == nil {
						unp(n.term, append(pre, nb...))
					}
				}
			}
			// c. composites whose own prefix is BerTLV / maximal decimal, with adversarial lengths
			for i := 0; i < 4; i++ {
				n := genComp(r, 1)
				if n.pref == "BerTLV" {
					for _, b := range bers {
						if r.Chance(1, 4) {
							unp(n.term, append(append([]byte(nil), b...), r.Bytes(r.Intn(6))...))
						}
					}
				}
			}
			// d. maximal / signed / padded decimal prefixes with short data
			for _, pref := range allVarPrefixers() {
				s := shapeOf(pref)
				if s.fam == "BerTLV" {
					continue
				}
				spec := L(A("P"), A("String"), A("ASCII"), A(pref), I(s.capacity()), A("N"), X([]byte{0}), A("D"))
				if p, err := prefixers[pref].EncodeLength(1<<62, s.capacity()); err == nil {
					unp(spec, append(p, r.Bytes(r.Intn(4))...))
				}
				unp(spec, bytes.Repeat([]byte{0xff}, s.width()))
				unp(spec, bytes.Repeat([]byte{'9'}, s.width()+1))
			}
			// e. bitmap chains: every block announces another one; all bits set with no data
			g := genMsg(r, false)
			B := g.B
			for _, blocks := range []int{1, 2, 5, 40, 400} {
				chain := bytes.Repeat(append([]byte{0x80}, bytes.Repeat([]byte{0}, B-1)...), blocks)
				all := bytes.Repeat([]byte{0xff}, B*blocks)
				for _, bm := range [][]byte{chain, all} {
					wire := bm
					if g.term.List[2].List[2].Atom == "Hex" {
						wire = []byte(fmt.Sprintf("%X", bm))
					}
					mti := packedOf(g.term.List[1], L(A("S"), X([]byte("0100"))))
					if g.term.List[1].List[1].Atom == "Numeric" {
						mti = packedOf(g.term.List[1], L(A("N"), I(100)))
					}
					emit(L(A("msg"), g.term, L(op("unpack", X(append(append([]byte(nil), mti...), wire...))), op("get"))))
				}
			}
		}
	}
}
