package main

import (
	"fmt"
	"go/ast"
	"go/parser"
	"go/token"
	"os"
	"path/filepath"
	"sort"
	"strconv"
	"strings"
)

// G5: catalogue of every error construction site (fmt.Errorf, errors.New, utils.NewSafeError(f)) in the
// library's non-test code, with the class of every argument that is formatted into the message, and of every
// place where an error produced by strconv / encoding/hex / encoding/json / time (whose text quotes its input)
// leaves a function without being hidden behind a SafeError. Purely syntactic (go/ast).

var errPkgDirs = []string{"", "field", "encoding", "prefix", "padding", "sort", "utils", "errors", "network", "specs"}

// argument classes:
//
//	int    formatted with %d or an integer-looking expression
//	type   %T
//	wrap   an error value (err, %w / %v / %s)
//	tag    a field id / subfield tag / path / index (identifies a field, is not field content)
//	desc   a spec description
//	const  a string literal or constant
//	value  anything else: potentially derived from field contents
func classifyArg(verb string, e ast.Expr) string {
	src := exprText(e)
	switch verb {
	case "d":
		return "int"
	case "T":
		return "type"
	case "w":
		return "wrap"
	}
	low := strings.ToLower(src)
	switch {
	case src == "err" || strings.HasSuffix(src, "Err") || strings.HasSuffix(low, "error") || strings.Contains(src, "strings.Join(errorList"):
		return "wrap"
	case strings.Contains(src, "Description"):
		return "desc"
	case strings.HasPrefix(src, "len(") || strings.Contains(low, "length") || strings.Contains(low, "maxlen") || low == "read" || low == "offset" ||
		low == "i" || strings.Contains(src, "math.Max") || strings.Contains(low, "digits") || low == "idx" || strings.Contains(src, "indexTag.ID") ||
		strings.Contains(low, "datalen") || low == "fixlen" || low == "h.len" || low == "l" || low == "mtiidx" || low == "bitmapidx" || strings.Contains(src, ".Kind()"):
		return "int"
	case low == "tag" || low == "id" || low == "istr" || low == "idpath" || low == "path" || strings.Contains(src, "indexTag.Tag") || low == "index" || low == "key":
		return "tag"
	case strings.HasPrefix(src, "\""):
		return "const"
	}
	return "value"
}

func exprText(e ast.Expr) string {
	switch x := e.(type) {
	case *ast.Ident:
		return x.Name
	case *ast.SelectorExpr:
		return exprText(x.X) + "." + x.Sel.Name
	case *ast.CallExpr:
		var as []string
		for _, a := range x.Args {
			as = append(as, exprText(a))
		}
		return exprText(x.Fun) + "(" + strings.Join(as, ",") + ")"
	case *ast.BasicLit:
		return x.Value
	case *ast.IndexExpr:
		return exprText(x.X) + "[" + exprText(x.Index) + "]"
	case *ast.SliceExpr:
		return exprText(x.X) + "[:]"
	case *ast.StarExpr:
		return "*" + exprText(x.X)
	case *ast.UnaryExpr:
		return x.Op.String() + exprText(x.X)
	case *ast.BinaryExpr:
		return exprText(x.X) + x.Op.String() + exprText(x.Y)
	case *ast.ParenExpr:
		return "(" + exprText(x.X) + ")"
	case *ast.ArrayType:
		return "[]" + exprText(x.Elt)
	}
	return "?"
}

func formatVerbs(f string) []string {
	var vs []string
	for i := 0; i < len(f); i++ {
		if f[i] != '%' {
			continue
		}
		j := i + 1
		for j < len(f) && strings.ContainsRune("+-# 0123456789.*", rune(f[j])) {
			if f[j] == '*' {
				vs = append(vs, "d")
			}
			j++
		}
		if j < len(f) {
			if f[j] != '%' {
				vs = append(vs, string(f[j]))
			}
			i = j
		}
	}
	return vs
}

type errSite struct {
	id     string
	kind   string // errorf | new | safe | safef
	format string
	args   []string // class:text
	hidden bool     // lexically the first argument of utils.NewSafeError(f): only reachable through UnsafeError()
}

type quoteFlow struct {
	id        string
	callee    string
	protected bool
	input     string
}

func genErrorSites() string {
	fset := token.NewFileSet()
	var sites []errSite
	var flows []quoteFlow
	consts := map[string]string{}
	type job struct {
		rel string
		fd  *ast.FuncDecl
	}
	var jobs []job
	for _, d := range errPkgDirs {
		dir := filepath.Join("/repo", d)
		pkgs, err := parser.ParseDir(fset, dir, func(fi os.FileInfo) bool { return !strings.HasSuffix(fi.Name(), "_test.go") }, 0)
		if err != nil {
			panic(err)
		}
		for _, pkg := range pkgs {
			var fnames []string
			for fname := range pkg.Files {
				fnames = append(fnames, fname)
			}
			sort.Strings(fnames)
			for _, fname := range fnames {
				f := pkg.Files[fname]
				rel, _ := filepath.Rel("/repo", fname)
				for _, dcl := range f.Decls {
					switch x := dcl.(type) {
					case *ast.GenDecl:
						for _, s := range x.Specs {
							if vs, ok := s.(*ast.ValueSpec); ok {
								for i, n := range vs.Names {
									if i < len(vs.Values) {
										if bl, ok := vs.Values[i].(*ast.BasicLit); ok && bl.Kind == token.STRING {
											if v, err := strconv.Unquote(bl.Value); err == nil {
												consts[n.Name] = v
											}
										}
									}
								}
							}
						}
					case *ast.FuncDecl:
						if x.Body != nil {
							jobs = append(jobs, job{rel, x})
						}
					}
				}
			}
		}
	}
	for _, j := range jobs {
		fd := j.fd
		fname := fd.Name.Name
		if fd.Recv != nil && len(fd.Recv.List) > 0 {
			fname = strings.TrimPrefix(exprText(fd.Recv.List[0].Type), "*") + "." + fname
		}
		ord := 0
		hiddenCalls := map[ast.Node]bool{}
		ast.Inspect(fd.Body, func(n ast.Node) bool {
			if ce, ok := n.(*ast.CallExpr); ok {
				fn := exprText(ce.Fun)
				if (fn == "utils.NewSafeError" || fn == "utils.NewSafeErrorf" || fn == "NewSafeError" || fn == "NewSafeErrorf") && len(ce.Args) > 0 {
					hiddenCalls[ce.Args[0]] = true
				}
			}
			return true
		})
		ast.Inspect(fd.Body, func(n ast.Node) bool {
			ce, ok := n.(*ast.CallExpr)
			if !ok {
				return true
			}
			fn := exprText(ce.Fun)
			var kind string
			fmtIdx := 0
			switch fn {
			case "fmt.Errorf":
				kind = "errorf"
			case "errors.New":
				kind = "new"
			case "utils.NewSafeError", "NewSafeError":
				kind, fmtIdx = "safe", 1
			case "utils.NewSafeErrorf", "NewSafeErrorf":
				kind, fmtIdx = "safef", 1
			default:
				return true
			}
			ord++
			s := errSite{id: fmt.Sprintf("%s:%s#%d", j.rel, fname, ord), kind: kind, hidden: hiddenCalls[ce]}
			if fmtIdx < len(ce.Args) {
				switch a := ce.Args[fmtIdx].(type) {
				case *ast.BasicLit:
					s.format, _ = strconv.Unquote(a.Value)
				case *ast.Ident:
					s.format = consts[a.Name]
				default:
					s.format = "?" + exprText(a)
				}
			}
			if kind == "errorf" || kind == "safef" {
				verbs := formatVerbs(s.format)
				rest := ce.Args[fmtIdx+1:]
				for i, a := range rest {
					v := "v"
					if i < len(verbs) {
						v = verbs[i]
					}
					s.args = append(s.args, classifyArg(v, a)+":"+exprText(a))
				}
			}
			sites = append(sites, s)
			return true
		})
		// a quoting function returned directly
		ast.Inspect(fd.Body, func(n ast.Node) bool {
			if rs, ok := n.(*ast.ReturnStmt); ok {
				for _, r := range rs.Results {
					if ce, ok := r.(*ast.CallExpr); ok {
						callee := exprText(ce.Fun)
						if (strings.HasPrefix(callee, "strconv.") && callee != "strconv.Itoa" && callee != "strconv.FormatInt") || callee == "hex.DecodeString" {
							input := ""
							if len(ce.Args) > 0 {
								input = exprText(ce.Args[0])
							}
							flows = append(flows, quoteFlow{id: fmt.Sprintf("%s:%s", j.rel, fname), callee: callee, protected: false, input: input})
						}
					}
				}
			}
			return true
		})
		// errors whose text quotes their input, and how they leave the function
		stmts := flatten(fd.Body)
		for i, st := range stmts {
			as, ok := st.(*ast.AssignStmt)
			if !ok || len(as.Rhs) != 1 {
				continue
			}
			ce, ok := as.Rhs[0].(*ast.CallExpr)
			if !ok {
				continue
			}
			callee := exprText(ce.Fun)
			if !(strings.HasPrefix(callee, "strconv.") || callee == "hex.DecodeString" || callee == "hex.Decode" || callee == "json.Unmarshal" || callee == "time.Parse" || callee == "strconv.Unquote") {
				continue
			}
			if callee == "strconv.Itoa" || callee == "strconv.FormatInt" {
				continue
			}
			// look at the statement that follows: if err != nil { return ... }
			protected := true
			if i+1 < len(stmts) {
				if ifs, ok := stmts[i+1].(*ast.IfStmt); ok {
					ast.Inspect(ifs.Body, func(n ast.Node) bool {
						if rs, ok := n.(*ast.ReturnStmt); ok {
							for _, r := range rs.Results {
								t := exprText(r)
								if (t == "err" || strings.Contains(t, "fmt.Errorf(") && (strings.Contains(t, ",err)") || strings.Contains(t, "Err)"))) && !strings.Contains(t, "NewSafeError") {
									protected = false
								}
							}
						}
						return true
					})
				}
			}
			input := ""
			if len(ce.Args) > 0 {
				input = exprText(ce.Args[0])
			}
			flows = append(flows, quoteFlow{id: fmt.Sprintf("%s:%s", j.rel, fname), callee: callee, protected: protected, input: input})
		}
	}
	var sb strings.Builder
	sb.WriteString("(* GENERATED by harness translate (go/ast) from the non-test sources of /repo: do not edit.\n   Every error construction site with the class of each formatted argument, and every place where an error whose\n   text quotes its input (strconv, encoding/hex, encoding/json, time) is produced, with whether it leaves the\n   function hidden behind a SafeError. *)\nFrom Coq Require Import List Strings.String.\nImport ListNotations.\nOpen Scope string_scope.\n\n")
	sb.WriteString("Record err_site : Type := { es_id : string; es_kind : string; es_format : string; es_args : list (string * string); es_hidden : bool }.\n")
	sb.WriteString("Record quote_flow : Type := { qf_where : string; qf_callee : string; qf_protected : bool; qf_input : string }.\n\n")
	sb.WriteString("Definition error_sites : list err_site :=\n  [\n")
	for i, s := range sites {
		var as []string
		for _, a := range s.args {
			k := strings.SplitN(a, ":", 2)
			as = append(as, fmt.Sprintf("(%s, %s)", coqQ(k[0]), coqQ(k[1])))
		}
		fmt.Fprintf(&sb, "   {| es_id := %s; es_kind := %s; es_format := %s; es_args := [%s]; es_hidden := %v |}", coqQ(s.id), coqQ(s.kind), coqQ(s.format), strings.Join(as, "; "), s.hidden)
		if i < len(sites)-1 {
			sb.WriteString(";")
		}
		sb.WriteString("\n")
	}
	sb.WriteString("  ].\n\nDefinition quote_flows : list quote_flow :=\n  [\n")
	for i, f := range flows {
		fmt.Fprintf(&sb, "   {| qf_where := %s; qf_callee := %s; qf_protected := %v; qf_input := %s |}", coqQ(f.id), coqQ(f.callee), f.protected, coqQ(f.input))
		if i < len(flows)-1 {
			sb.WriteString(";")
		}
		sb.WriteString("\n")
	}
	sb.WriteString("  ].\n")
	return sb.String()
}

func coqQ(s string) string {
	var b strings.Builder
	b.WriteByte('"')
	for _, c := range []byte(s) {
		switch {
		case c == '"':
			b.WriteString("\"\"")
		case c < 0x20 || c > 0x7e:
			b.WriteByte('?')
		default:
			b.WriteByte(c)
		}
	}
	b.WriteByte('"')
	return b.String()
}

// statements of a function body in source order, descending into blocks
func flatten(b *ast.BlockStmt) []ast.Stmt {
	var out []ast.Stmt
	var walk func(list []ast.Stmt)
	walk = func(list []ast.Stmt) {
		for _, s := range list {
			out = append(out, s)
			switch x := s.(type) {
			case *ast.BlockStmt:
				walk(x.List)
			case *ast.IfStmt:
				walk(x.Body.List)
				if eb, ok := x.Else.(*ast.BlockStmt); ok {
					walk(eb.List)
				}
			case *ast.ForStmt:
				walk(x.Body.List)
			case *ast.RangeStmt:
				walk(x.Body.List)
			case *ast.SwitchStmt:
				for _, c := range x.Body.List {
					if cc, ok := c.(*ast.CaseClause); ok {
						walk(cc.Body)
					}
				}
			case *ast.TypeSwitchStmt:
				for _, c := range x.Body.List {
					if cc, ok := c.(*ast.CaseClause); ok {
						walk(cc.Body)
					}
				}
			case *ast.CaseClause:
				walk(x.Body)
			}
		}
	}
	walk(b.List)
	return out
}

func init() {
	extraGen["ErrorSites.v"] = genErrorSites
}
