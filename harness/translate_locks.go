package main

import (
	"fmt"
	"go/ast"
	"go/parser"
	"go/token"
	"os"
	"path/filepath"
	"sort"
	"strings"
)

// G4: lock / guarded-access summary of the methods of *Message (message.go) and *Composite
// (field/composite.go), purely syntactic (go/ast).

type callSite struct {
	name   string
	pos    token.Pos
	inLoop bool
}

type lockMeth struct {
	name     string
	recv     string
	locks    bool
	direct   map[string]bool
	calls    map[string]bool
	exported bool
	spawns   bool // contains a go statement or a function literal that touches guarded state
	sites    []callSite
}

func astString(n ast.Node) string {
	switch x := n.(type) {
	case *ast.ExprStmt:
		return astString(x.X)
	case *ast.DeferStmt:
		return "defer " + astString(x.Call)
	case *ast.CallExpr:
		return astString(x.Fun) + "()"
	case *ast.SelectorExpr:
		return astString(x.X) + "." + x.Sel.Name
	case *ast.Ident:
		return x.Name
	}
	return "?"
}

func lockSummary(dir, typ string, guarded map[string]bool) (map[string]*lockMeth, []string) {
	fset := token.NewFileSet()
	pkgs, err := parser.ParseDir(fset, dir, func(fi os.FileInfo) bool { return !strings.HasSuffix(fi.Name(), "_test.go") }, 0)
	if err != nil {
		panic(err)
	}
	ms := map[string]*lockMeth{}
	var foreign []string
	for _, pkg := range pkgs {
		for fname, f := range pkg.Files {
			for _, d := range f.Decls {
				fd, ok := d.(*ast.FuncDecl)
				if !ok || fd.Body == nil {
					continue
				}
				isMethod := false
				recv := ""
				if fd.Recv != nil && len(fd.Recv.List) > 0 {
					if st, ok := fd.Recv.List[0].Type.(*ast.StarExpr); ok {
						if id, ok := st.X.(*ast.Ident); ok && id.Name == typ {
							isMethod = true
							if len(fd.Recv.List[0].Names) > 0 {
								recv = fd.Recv.List[0].Names[0].Name
							}
						}
					}
				}
				if !isMethod {
					// foreign code must not touch the guarded fields of typ (unexported: same package only)
					ownerTyp := ""
					if fd.Recv != nil && len(fd.Recv.List) > 0 {
						ownerTyp = astString(fd.Recv.List[0].Type)
					}
					ast.Inspect(fd.Body, func(n ast.Node) bool {
						if se, ok := n.(*ast.SelectorExpr); ok && guarded[se.Sel.Name] {
							// a selector on some other receiver type's own field of the same name is not ours:
							// only flag when the enclosing function is not a method of a type declaring that field
							if !typeDeclaresField(pkg, ownerTyp, se.Sel.Name) {
								foreign = append(foreign, fmt.Sprintf("%s:%s.%s", filepath.Base(fname), fd.Name.Name, se.Sel.Name))
							}
						}
						return true
					})
					continue
				}
				m := &lockMeth{name: fd.Name.Name, recv: recv, direct: map[string]bool{}, calls: map[string]bool{}, exported: fd.Name.IsExported()}
				ms[m.name] = m
				if len(fd.Body.List) >= 2 && astString(fd.Body.List[0]) == recv+".mu.Lock()" && astString(fd.Body.List[1]) == "defer "+recv+".mu.Unlock()" {
					m.locks = true
				}
				// the same critical section written without defer: Lock() first, Unlock() last, and no return in between
				if n := len(fd.Body.List); n >= 2 && astString(fd.Body.List[0]) == recv+".mu.Lock()" && astString(fd.Body.List[n-1]) == recv+".mu.Unlock()" {
					hasReturn := false
					ast.Inspect(fd.Body, func(x ast.Node) bool {
						switch x.(type) {
						case *ast.FuncLit:
							return false
						case *ast.ReturnStmt:
							hasReturn = true
						}
						return true
					})
					if !hasReturn {
						m.locks = true
					}
				}
				// any other use of the mutex (explicit Unlock, a second Lock) breaks the pattern
				muUses := 0
				var loops [][2]token.Pos
				ast.Inspect(fd.Body, func(n ast.Node) bool {
					switch x := n.(type) {
					case *ast.SelectorExpr:
						if id, ok := x.X.(*ast.Ident); ok && id.Name == recv {
							if x.Sel.Name == "mu" {
								muUses++
							}
							if guarded[x.Sel.Name] {
								m.direct[x.Sel.Name] = true
							}
						}
					case *ast.ForStmt:
						loops = append(loops, [2]token.Pos{x.Body.Pos(), x.Body.End()})
					case *ast.RangeStmt:
						loops = append(loops, [2]token.Pos{x.Body.Pos(), x.Body.End()})
					case *ast.CallExpr:
						if se, ok := x.Fun.(*ast.SelectorExpr); ok {
							if id, ok := se.X.(*ast.Ident); ok && id.Name == recv {
								m.calls[se.Sel.Name] = true
								m.sites = append(m.sites, callSite{se.Sel.Name, x.Pos(), false})
							}
						}
					case *ast.GoStmt:
						m.spawns = true
					}
					return true
				})
				for i := range m.sites {
					for _, l := range loops {
						if m.sites[i].pos >= l[0] && m.sites[i].pos < l[1] {
							m.sites[i].inLoop = true
						}
					}
				}
				if m.locks && muUses != 2 {
					m.locks = false
				}
				if !m.locks && muUses > 0 {
					m.direct["mu(irregular)"] = true
				}
			}
		}
	}
	return ms, foreign
}

func typeDeclaresField(pkg *ast.Package, typ, fieldName string) bool {
	typ = strings.TrimPrefix(typ, "*")
	for _, f := range pkg.Files {
		for _, d := range f.Decls {
			gd, ok := d.(*ast.GenDecl)
			if !ok {
				continue
			}
			for _, s := range gd.Specs {
				ts, ok := s.(*ast.TypeSpec)
				if !ok || ts.Name.Name != typ {
					continue
				}
				if st, ok := ts.Type.(*ast.StructType); ok {
					for _, fl := range st.Fields.List {
						for _, n := range fl.Names {
							if n.Name == fieldName {
								return true
							}
						}
					}
				}
			}
		}
	}
	return false
}

func coqStrList(xs []string) string {
	q := make([]string, len(xs))
	for i, x := range xs {
		q[i] = fmt.Sprintf("%q", x)
	}
	return "[" + strings.Join(q, "; ") + "]"
}

func genLocksFor(name, dir, typ string, guarded []string) string {
	g := map[string]bool{}
	for _, x := range guarded {
		g[x] = true
	}
	ms, foreign := lockSummary(dir, typ, g)
	var names []string
	for n := range ms {
		names = append(names, n)
	}
	sort.Strings(names)
	var rows []string
	for _, n := range names {
		m := ms[n]
		acc := map[string]bool{}
		var lockingCalls []string
		seen := map[string]bool{}
		var walk func(x *lockMeth)
		walk = func(x *lockMeth) {
			if seen[x.name] {
				return
			}
			seen[x.name] = true
			for a := range x.direct {
				acc[a] = true
			}
			for c := range x.calls {
				if cm, ok := ms[c]; ok {
					if cm.locks {
						lockingCalls = append(lockingCalls, c)
					} else {
						walk(cm)
					}
				}
			}
		}
		walk(m)
		// critical sections one invocation may enter: 1 for a method that locks its whole body, otherwise the calls to
		// locking methods (a call inside a loop counts as two = many), through non-locking helpers
		var sections func(x *lockMeth, depth int) int
		sections = func(x *lockMeth, depth int) int {
			if x.locks {
				return 1
			}
			if depth > 6 {
				return 2
			}
			total := 0
			for _, cs := range x.sites {
				cm, ok := ms[cs.name]
				if !ok {
					continue
				}
				k := sections(cm, depth+1)
				if cs.inLoop && k > 0 {
					k = 2
				}
				total += k
			}
			if total > 2 {
				total = 2
			}
			return total
		}
		nsec := sections(m, 0)
		var as []string
		for a := range acc {
			as = append(as, a)
		}
		sort.Strings(as)
		sort.Strings(lockingCalls)
		b := func(x bool) string {
			if x {
				return "true"
			}
			return "false"
		}
		rows = append(rows, fmt.Sprintf("   {| lm_name := %q; lm_exported := %s; lm_locks := %s; lm_touches := %s; lm_calls_locking := %s; lm_spawns := %s; lm_sections := %d |}",
			n, b(m.exported), b(m.locks), coqStrList(as), coqStrList(lockingCalls), b(m.spawns), nsec))
	}
	sort.Strings(foreign)
	return fmt.Sprintf("Definition %s_methods : list lock_summary :=\n  [\n%s\n  ].\nDefinition %s_foreign_accesses : list string := %s.\n", name, strings.Join(rows, ";\n"), name, coqStrList(foreign))
}

func init() {
	extraGen["Locks.v"] = func() string {
		return "(* GENERATED by harness translate (go/ast) from /repo/message.go and /repo/field/composite.go: do not edit.\n" +
			"   lm_locks: the body starts with mu.Lock(); defer mu.Unlock() and uses the mutex nowhere else;\n" +
			"   lm_touches: guarded fields reached directly or through non-locking methods of the same receiver;\n" +
			"   lm_calls_locking: locking methods called on the same receiver (a self-deadlock with sync.Mutex);\n" +
			"   lm_sections: critical sections one invocation may enter (2 = more than one: the operation is not atomic). *)\n" +
			"From Coq Require Import List Strings.String.\nImport ListNotations.\nOpen Scope string_scope.\n\n" +
			"Record lock_summary : Type := { lm_name : string; lm_exported : bool; lm_locks : bool; lm_touches : list string; lm_calls_locking : list string; lm_spawns : bool; lm_sections : nat }.\n\n" +
			genLocksFor("message", "/repo", "Message", []string{"fields", "fieldsMap", "cachedBitmap", "failedID"}) + "\n" +
			genLocksFor("composite", "/repo/field", "Composite", []string{"subfields", "setSubfields", "cachedBitmap"})
	}
}
