package main

import (
	"bufio"
	"fmt"
	"os"
	"runtime/debug"
	"sort"
	"strconv"
)

type genFn func(r *Rng, tier string, emit func(*Sx))
type execFn func(args []*Sx) string

var generators = map[string]genFn{}
var executors = map[string]execFn{}

func usage() {
	fmt.Fprintln(os.Stderr, "usage: harness gen <topic> <tier> <seed> | exec [from] | topics | translate <outdir> | oracle <prop> <tier> <seed>")
	os.Exit(2)
}

// runCase executes one case against the real library. A Go panic is an observable outcome class.
func runCase(line string) (res string) {
	defer func() {
		if r := recover(); r != nil {
			res = "panic"
			if os.Getenv("VERIF_DEBUG") != "" {
				fmt.Fprintf(os.Stderr, "panic: %v\n%s\n", r, debug.Stack())
			}
		}
	}()
	sx, err := parseSx(line)
	if err != nil {
		return "badcase"
	}
	f, ok := executors[sx.Head()]
	if !ok {
		return "badcase"
	}
	return f(sx.Args())
}

func main() {
	if len(os.Args) < 2 {
		usage()
	}
	out := bufio.NewWriterSize(os.Stdout, 1<<16)
	defer out.Flush()
	switch os.Args[1] {
	case "topics":
		var ts []string
		for t := range generators {
			ts = append(ts, t)
		}
		sort.Strings(ts)
		for _, t := range ts {
			fmt.Fprintln(out, t)
		}
	case "gen":
		if len(os.Args) < 5 {
			usage()
		}
		g, ok := generators[os.Args[2]]
		if !ok {
			fmt.Fprintln(os.Stderr, "unknown topic", os.Args[2])
			os.Exit(2)
		}
		seed, _ := strconv.ParseUint(os.Args[4], 10, 64)
		// topic name is mixed into the seed so that topics draw independent streams
		h := uint64(1469598103934665603)
		for _, c := range []byte(os.Args[2]) {
			h = (h ^ uint64(c)) * 1099511628211
		}
		g(NewRng(seed^h), os.Args[3], func(s *Sx) { fmt.Fprintln(out, s.String()) })
	case "exec":
		from := 0
		if len(os.Args) > 2 {
			from, _ = strconv.Atoi(os.Args[2])
		}
		sc := bufio.NewScanner(os.Stdin)
		sc.Buffer(make([]byte, 1<<20), 1<<26)
		i := 0
		for sc.Scan() {
			if i >= from {
				fmt.Fprintln(out, runCase(sc.Text()))
				out.Flush()
			}
			i++
		}
	case "translate":
		if len(os.Args) < 3 {
			usage()
		}
		translate(os.Args[2])
	case "oracle":
		if len(os.Args) < 3 {
			usage()
		}
		from := 0
		if len(os.Args) > 3 {
			from, _ = strconv.Atoi(os.Args[3])
		}
		runOracle(os.Args[2], from, out)
	default:
		usage()
	}
}
