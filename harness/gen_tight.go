package main

// A tagged composite one of whose elements is a composite with a tight maximum length: the element occurs twice in the
// body, each time with a different single subfield. The later occurrence wins, so what the object holds fits the
// maximum and re-packs; an implementation that keeps both populations accepts the bytes and then cannot re-pack them.

func cloneWithSub(n *gnode, tag string, sub *gnode) *gnode {
	c := *n
	c.subs = map[string]*gnode{}
	for k, v := range n.subs {
		c.subs[k] = v
	}
	c.subs[tag] = sub
	var subTerms []*Sx
	for _, st := range n.term.List[4].List {
		if string(st.List[0].Hex()) == tag {
			subTerms = append(subTerms, L(st.List[0], sub.term))
		} else {
			subTerms = append(subTerms, st)
		}
	}
	c.term = L(n.term.List[0], n.term.List[1], n.term.List[2], n.term.List[3], L(subTerms...))
	return &c
}

func withLength(n *gnode, l int) *gnode {
	c := *n
	c.L = l
	c.term = L(n.term.List[0], n.term.List[1], I(l), n.term.List[3], n.term.List[4])
	return &c
}

func bodyLen(n *gnode, v *Sx) (l int) {
	defer func() {
		if recover() != nil {
			l = -1
		}
	}()
	f := buildField(n.term)
	applyVal(f, v)
	b, err := f.Bytes()
	if err != nil {
		return -1
	}
	return len(b)
}

// tightNested returns a copy of n in which one nested composite has the smallest maximum length that admits each of
// two single-subfield populations, and the two values of n holding them; nil when n has no such element
func tightNested(r *Rng, n *gnode) (*gnode, *Sx, *Sx) {
	if n.mode != "tag" && n.mode != "ber" {
		return nil, nil, nil
	}
	for _, t := range n.order {
		c := n.subs[t]
		if !c.comp || c.mode == "pos" || len(c.order) < 2 {
			continue
		}
		i := r.Intn(len(c.order))
		j := (i + 1 + r.Intn(len(c.order)-1)) % len(c.order)
		a, b := c.order[i], c.order[j]
		va := L(A("C"), L(L(X([]byte(a)), genValue(r, c.subs[a]))))
		vb := L(A("C"), L(L(X([]byte(b)), genValue(r, c.subs[b]))))
		la, lb := bodyLen(c, va), bodyLen(c, vb)
		if la <= 0 || lb <= 0 {
			continue
		}
		m := la
		if lb > m {
			m = lb
		}
		if c.L != 0 && m > c.L {
			continue
		}
		n2 := cloneWithSub(n, t, withLength(c, m))
		v1 := L(A("C"), L(L(X([]byte(t)), va)))
		v2 := L(A("C"), L(L(X([]byte(t)), vb)))
		return n2, v1, v2
	}
	return nil, nil, nil
}
