package main

import (
	"bytes"
	"encoding/hex"
	"fmt"
	"math/big"
	"strings"

	"errors"

	"github.com/moov-io/iso8583"
	iso8583errors "github.com/moov-io/iso8583/errors"
	"github.com/moov-io/iso8583/field"
)

// units of a leaf value term as the packer sees them (before padding)
func rawLen(v *Sx) int {
	switch v.Head() {
	case "S", "B":
		return len(v.List[1].Hex())
	case "N":
		return len(fmt.Sprint(v.List[1].Int()))
	case "H":
		return len(v.List[1].Hex()) / 2
	}
	return 0
}

// must EncodeLength refuse n units under this prefixer and maximum?
func lengthMustFail(pref string, L, n int) bool {
	if pref == "BerTLV" {
		return L != 0 && n > L
	}
	s := shapeOf(pref)
	if s.fixed {
		return n != L
	}
	return n > L || n > s.capacity()
}

// announcedLength reads the length a variable-length prefix announces without the library: Binary.L* big-endian over
// all its bytes, ASCII.L* decimal digits, Hex.L* two hexadecimal characters per L
func announcedLength(pref string, data []byte) (*big.Int, bool) {
	dot := strings.Index(pref, ".")
	if dot < 0 || strings.HasSuffix(pref, "Fixed") {
		return nil, false
	}
	fam, k := pref[:dot], len(pref)-dot-1
	if strings.Trim(pref[dot+1:], "L") != "" || k == 0 {
		return nil, false
	}
	switch fam {
	case "Binary":
		if len(data) < k {
			return nil, false
		}
		return new(big.Int).SetBytes(data[:k]), true
	case "ASCII":
		if len(data) < k {
			return nil, false
		}
		for _, c := range data[:k] {
			if c < '0' || c > '9' {
				return nil, false
			}
		}
		n, ok := new(big.Int).SetString(string(data[:k]), 10)
		return n, ok
	case "Hex":
		if len(data) < 2*k {
			return nil, false
		}
		n, ok := new(big.Int).SetString(string(data[:2*k]), 16)
		return n, ok
	}
	return nil, false
}

// prefixWidth is the number of bytes of a variable-length prefix that announcedLength can read, -1 otherwise
func prefixWidth(pref string) int {
	dot := strings.Index(pref, ".")
	if dot < 0 || strings.HasSuffix(pref, "Fixed") || strings.Trim(pref[dot+1:], "L") != "" {
		return -1
	}
	k := len(pref) - dot - 1
	switch pref[:dot] {
	case "Binary", "ASCII":
		return k
	case "Hex":
		return 2 * k
	}
	return -1
}

func init() {
	// ---- C05, message level ----
	regCheck("C05", "msg", func(a []*Sx) (bool, []Finding) {
		if firstOpArg(a[1].List, "setval") == nil {
			return false, nil
		}
		spec := a[0]
		m, _ := msgFromOps(spec, a[1].List)
		unrep := unrepresentableIDs(spec)
		present := m.GetFields()
		packed, err := m.Pack()
		var fs []Finding
		for id, why := range unrep {
			if _, ok := present[id]; ok && err == nil {
				fs = append(fs, Finding{"c05-unrepresentable-packed:" + why, fmt.Sprintf("data element %d is populated but the bitmap cannot represent it (%s), yet Pack succeeds", id, why)})
			}
		}
		if err != nil || len(fs) > 0 {
			return len(unrep) > 0, fs
		}
		// read the bitmap off the wire, independently of the library's Bitmap type
		sa := spec.Args()
		B, auto, enc := sa[1].List[0].Int(), sa[1].List[1].Bool(), sa[1].List[2].Atom
		if B == 0 {
			B = 8 // Length 0 is the default block of 8 bytes
		}
		mtiPacked, _ := m.GetField(0).Pack()
		pos := len(mtiPacked)
		var bits []int
		blocks := 0
		for {
			unit := B
			if enc == "Hex" {
				unit = 2 * B
			}
			if pos+unit > len(packed) {
				return true, append(fs, Finding{"c05-bitmap-truncated", "the packed message ends inside its bitmap"})
			}
			blk := packed[pos : pos+unit]
			if enc == "Hex" {
				dec, err := hex.DecodeString(string(blk))
				if err != nil {
					return true, append(fs, Finding{"c05-bitmap-encoding", "the packed bitmap is not hex"})
				}
				blk = dec
			}
			for i, by := range blk {
				for k := 0; k < 8; k++ {
					if by&(0x80>>uint(k)) != 0 {
						n := blocks*8*B + i*8 + k + 1
						if !(auto && n%(8*B) == 1) {
							bits = append(bits, n)
						}
					}
				}
			}
			pos += unit
			blocks++
			if !auto || blk[0]&0x80 == 0 {
				break
			}
		}
		var want []int
		for _, id := range sortedIDs(present) {
			if id >= 2 {
				want = append(want, id)
			}
		}
		if fmt.Sprint(bits) != fmt.Sprint(want) {
			fs = append(fs, Finding{"c05-bits-vs-body", fmt.Sprintf("bits set in the packed bitmap %v differ from the data elements present %v", bits, want)})
		}
		if auto && len(want) > 0 {
			minBlocks := (want[len(want)-1] + 8*B - 1) / (8 * B)
			if blocks != minBlocks {
				fs = append(fs, Finding{"c05-not-minimal", fmt.Sprintf("the packed bitmap has %d blocks, the minimum is %d", blocks, minBlocks)})
			}
		}
		return true, fs
	})

	// ---- C08 ----
	regCheck("C08", "fld", func(a []*Sx) (bool, []Finding) {
		spec := a[0]
		var fs []Finding
		if v := firstOpArg(a[1].List, "set"); v != nil {
			f := buildField(spec)
			applyVal(f, v)
			_, err := f.Pack()
			if spec.Head() == "P" {
				sa := spec.Args()
				L, padK := sa[3].Int(), sa[4].Atom
				n := rawLen(v)
				if padK != "N" && n < L {
					n = L
				}
				if kindMatches(f, v.Head()) && lengthMustFail(sa[2].Atom, L, n) && err == nil {
					fs = append(fs, Finding{"c08-pack-accepts:" + sa[2].Atom, fmt.Sprintf("Pack accepts a value of %d units for a field declared %s with length %d", n, sa[2].Atom, L)})
				}
			} else if c, ok := f.(*field.Composite); ok && err == nil {
				body, _ := c.Bytes()
				sa := spec.Args()
				if lengthMustFail(sa[0].Atom, sa[1].Int(), len(body)) {
					fs = append(fs, Finding{"c08-pack-accepts-composite", "Pack accepts a composite whose encoded length violates its declared length"})
				}
			}
			return true, fs
		}
		if d := firstOpArg(a[1].List, "unpack"); d != nil && spec.Head() == "C" {
			// a composite whose prefix announces more bytes than follow it must be rejected (the announced length is read
			// here without the library)
			pref := spec.Args()[0].Atom
			ann, ok := announcedLength(pref, d.Hex())
			w := prefixWidth(pref)
			if !ok || w < 0 || len(d.Hex()) < w || ann.Cmp(big.NewInt(int64(len(d.Hex())-w))) <= 0 {
				return false, nil
			}
			f := buildField(spec)
			var err error
			panicked := false
			func() {
				defer func() {
					if r := recover(); r != nil {
						panicked = true
					}
				}()
				_, err = f.Unpack(append([]byte(nil), d.Hex()...))
			}()
			if panicked || err == nil {
				return true, []Finding{{"c08-composite-overrun:" + pref, fmt.Sprintf("Unpack accepts (or panics on) a composite announcing %s bytes when %d follow its prefix", ann.String(), len(d.Hex())-w)}}
			}
			return true, nil
		}
		if d := firstOpArg(a[1].List, "unpack"); d != nil && spec.Head() == "P" {
			f := buildField(spec)
			n, err := f.Unpack(d.Hex())
			if err != nil {
				return false, nil
			}
			sa := spec.Args()
			L, pref, enc := sa[3].Int(), sa[2].Atom, sa[1].Atom
			if n > len(d.Hex()) {
				fs = append(fs, Finding{"c08-unpack-overrun", "Unpack reports consuming more bytes than it was given"})
			}
			units := -1
			switch x := f.(type) {
			case *field.String:
				if enc != "EBCDIC1047" {
					units = len(x.Value())
				}
			case *field.Binary:
				units = len(x.Value())
			case *field.Hex:
				units = len(x.Value()) / 2
			}
			// the length the wire announces, read independently of the library's prefixers (big-endian bytes, decimal
			// or hexadecimal numerals): nothing above the declared maximum may be accepted, whatever the value then holds
			if ann, ok := announcedLength(pref, d.Hex()); ok && L > 0 && ann.Cmp(big.NewInt(int64(L))) > 0 {
				fs = append(fs, Finding{"c08-unpack-accepts-announced:" + pref, fmt.Sprintf("Unpack accepts a field whose prefix announces %s units, declared maximum %d", ann.String(), L)})
			}
			if units > L && !(pref == "BerTLV" && L == 0) {
				fs = append(fs, Finding{"c08-unpack-accepts:" + pref, fmt.Sprintf("Unpack accepts a value of %d units for a field declared with maximum %d", units, L)})
			}
			return true, fs
		}
		return false, nil
	})

	// ---- C09: TLV composites (cases carry the expected value in a note) ----
	regCheck("C09", "fld", func(a []*Sx) (bool, []Finding) {
		var expect, kind *Sx
		for _, o := range a[1].List {
			if o.Head() == "note" && o.List[1].Head() == "c09" {
				kind, expect = o.List[1].List[1], o.List[1].List[2]
			}
		}
		d := firstOpArg(a[1].List, "unpack")
		if expect != nil && kind.Atom == "canon" {
			// Pack emits each set subfield exactly once in sort order with its tag: expect = the reference bytes, built
			// from the separately packed elements in the generator's own order
			f2 := buildField(a[0])
			for _, o := range a[1].List {
				if o.Head() == "set" {
					applyVal(f2, o.List[1])
				}
			}
			p, err := f2.Pack()
			if err != nil || xh(p) != expect.Atom {
				return true, []Finding{{"c09-pack-order", "Pack does not emit the set subfields once each in the spec's sort order with their encoded tags"}}
			}
			return true, nil
		}
		if expect == nil || d == nil {
			return false, nil
		}
		f := buildField(a[0])
		n, err := f.Unpack(d.Hex())
		var fs []Finding
		switch kind.Atom {
		case "perm", "skip":
			// every ordering of the elements (and every inserted unknown element when skipping is on) gives the same value
			if err != nil {
				fs = append(fs, Finding{"c09-" + kind.Atom + "-rejected", "a reordered TLV list / a list with a skippable unknown element is rejected: " + safeErr(err)})
			} else if n != len(d.Hex()) {
				fs = append(fs, Finding{"c09-consumed", "Unpack did not consume exactly the announced composite length"})
			} else if got := showVal(f); got != expect.String() {
				fs = append(fs, Finding{"c09-" + kind.Atom + "-value", fmt.Sprintf("value %s differs from the value of the original ordering %s", clip(got), clip(expect.String()))})
			}
		case "unknown":
			// skipping off: the unknown tag must be named
			if err == nil {
				fs = append(fs, Finding{"c09-unknown-accepted", "a tag the spec does not define is accepted although skipping is off"})
			} else if want := "err " + expect.Atom; !strings.HasSuffix(showErrPath(err), expect.Atom) || showErrPath(err) == "err " {
				_ = want
				fs = append(fs, Finding{"c09-unknown-not-named", fmt.Sprintf("the error does not name the unknown tag: path %s", showErrPath(err))})
			}
		case "overrun":
			if err == nil {
				fs = append(fs, Finding{"c09-overrun-accepted", "an element whose length overruns the composite is accepted"})
			}
		case "canon":
			// Pack emits each set subfield exactly once in sort order with its tag: expect = the hex of the reference bytes
			f2 := buildField(a[0])
			for _, o := range a[1].List {
				if o.Head() == "set" {
					applyVal(f2, o.List[1])
				}
			}
			p, err := f2.Pack()
			if err != nil || xh(p) != expect.Atom {
				fs = append(fs, Finding{"c09-pack-order", "Pack does not emit the set subfields once each in the spec's sort order with their encoded tags"})
			}
		}
		return true, fs
	})

	// ---- C19: pack failures are typed ----
	regCheck("C19", "fld", func(a []*Sx) (bool, []Finding) { return false, nil })
	// ---- C19 (cases carry the owner of the truncation offset in a note) ----
	regCheck("C19", "msg", func(a []*Sx) (bool, []Finding) {
		var owner, prior, subTag *Sx
		for _, o := range a[1].List {
			if o.Head() == "note" && o.List[1].Head() == "c19" {
				owner, prior = o.List[1].List[1], o.List[1].List[2]
			}
			if o.Head() == "note" && o.List[1].Head() == "c19p" {
				owner, subTag, prior = o.List[1].List[1], o.List[1].List[2], o.List[1].List[3]
			}
		}
		d := firstOpArg(a[1].List, "unpack")
		if owner == nil || d == nil {
			// any other message case: a failing Pack must be a PackError, a failing Unpack an UnpackError carrying the input
			if firstOpArg(a[1].List, "setval") != nil {
				m, _ := msgFromOps(a[0], a[1].List)
				if _, err := m.Pack(); err != nil {
					var pe *iso8583errors.PackError
					if !errors.As(err, &pe) || err != error(pe) {
						return true, []Finding{{"c19-pack-not-typed", "Pack failure is not a PackError"}}
					}
					return true, nil
				}
				return false, nil
			}
			if d != nil {
				m := iso8583.NewMessage(buildMessageSpec(a[0]))
				if err := m.Unpack(append([]byte(nil), d.Hex()...)); err != nil {
					var ue *iso8583errors.UnpackError
					if !errors.As(err, &ue) || err != error(ue) || !bytes.Equal(ue.RawMessage, d.Hex()) {
						return true, []Finding{{"c19-not-typed", "Unpack failure is not an UnpackError carrying the input"}}
					}
					return true, nil
				}
			}
			return false, nil
		}
		m := iso8583.NewMessage(buildMessageSpec(a[0]))
		err := m.Unpack(append([]byte(nil), d.Hex()...))
		var fs []Finding
		if err == nil {
			if subTag != nil {
				// the corrupted length happened to be acceptable at message level
				return false, nil
			}
			return true, []Finding{{"c19-truncated-accepted", "a message cut inside an element is accepted"}}
		}
		var ue *iso8583errors.UnpackError
		if !errors.As(err, &ue) || err != error(ue) {
			return true, []Finding{{"c19-not-typed", "Unpack failure is not an UnpackError"}}
		}
		if !bytes.Equal(ue.RawMessage, d.Hex()) {
			fs = append(fs, Finding{"c19-raw-message", "the UnpackError's raw message differs from the input"})
		}
		ids := ue.FieldIDs()
		if len(ids) == 0 || ids[0] != owner.Atom {
			fs = append(fs, Finding{"c19-wrong-owner", fmt.Sprintf("truncation inside element %s is reported against %v", owner.Atom, ids)})
		}
		if subTag != nil && len(ids) > 0 && ids[0] == owner.Atom {
			// the note carries the tags from the element down to the corrupted subfield
			want := []string{owner.Atom}
			for _, t := range subTag.List {
				want = append(want, string(t.Hex()))
			}
			ok := len(ids) >= len(want)
			for i := 0; ok && i < len(want); i++ {
				ok = ids[i] == want[i]
			}
			if !ok {
				fs = append(fs, Finding{"c19-subfield-path", fmt.Sprintf("the length prefix of subfield %q of element %s is corrupted and that subfield cannot be decoded, but the id path is %q", want[1:], owner.Atom, ids)})
			}
		}
		// elements before the failing one remain readable with their decoded values
		for _, e := range prior.List {
			id := e.List[0].Int()
			f, present := m.GetFields()[id]
			if !present || showVal(f) != e.List[1].String() {
				fs = append(fs, Finding{"c19-earlier-lost", fmt.Sprintf("element %d, which precedes the failing one, is not readable with its decoded value", id)})
				break
			}
		}
		return true, fs
	})
}

var _ = bytes.Equal
