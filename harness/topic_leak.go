package main

import (
	"bytes"
	"encoding/json"
	"fmt"
	"reflect"
	"regexp"
	"strings"

	"github.com/moov-io/iso8583"
	"github.com/moov-io/iso8583/examples"
	"github.com/moov-io/iso8583/field"
	"github.com/moov-io/iso8583/specs"
)

var shippedSpecs = map[string]*iso8583.MessageSpec{
	"Spec87": iso8583.Spec87, "Spec87ASCII": specs.Spec87ASCII, "Spec87Hex": specs.Spec87Hex, "examples": examples.Spec,
}

var describeLine = regexp.MustCompile(`(?m)^F(\d+)\s.*?: (.*)$`)

// describeValues: the value part of each Describe line (after ": "), by field number
func describeValues(m *iso8583.Message) (map[string]string, string, error) {
	var buf bytes.Buffer
	err := iso8583.Describe(m, &buf)
	out := map[string]string{}
	for _, mt := range describeLine.FindAllStringSubmatch(buf.String(), -1) {
		out[mt[1]] = mt[2]
	}
	return out, buf.String(), err
}

func secret(r *Rng, n int, alpha string) []byte { return r.From([]byte(alpha), n) }

func init() {
	// the masking functions themselves, through the real Describe on Spec87 (field 2 = PAN, field 52 = PIN block)
	executors["desc.pan"] = func(a []*Sx) string {
		m := iso8583.NewMessage(iso8583.Spec87)
		m.MTI("0100")
		m.Field(2, string(a[0].Hex()))
		vals, _, _ := describeValues(m)
		return xh([]byte(vals["2"]))
	}
	executors["desc.pin"] = func(a []*Sx) string {
		m := iso8583.NewMessage(iso8583.Spec87)
		m.MTI("0100")
		m.Field(52, string(a[0].Hex()))
		vals, _, _ := describeValues(m)
		return xh([]byte(vals["52"]))
	}
	generators["leak"] = func(r *Rng, tier string, emit func(*Sx)) {
		n := 300
		if tier == "thorough" {
			n = 6000
		}
		for i := 0; i < n; i++ {
			// printable values without '*' (tabwriter / line parsing: no tabs or newlines)
			emit(L(A("desc.pan"), X(secret(r, r.Range(0, 24), "0123456789ABCDEFxyz =^"))))
			emit(L(A("desc.pin"), X(secret(r, r.Range(0, 20), "0123456789ABCDEF"))))
		}
		// the secret where a length prefix is expected, for every prefixer
		for _, pref := range allVarPrefixers() {
			for _, enc := range []string{"ASCII", "Hex", "BCD"} {
				spec := L(A("M"), L(A("P"), A("String"), A("ASCII"), A("ASCII.Fixed"), I(4), A("N"), X([]byte{0}), A("D")), L(I(8), A("1"), A("Binary"), A("Binary.Fixed")),
					L(L(I(2), L(A("P"), A("String"), A(enc), A(pref), I(prefCapacity(pref)%100000), A("N"), X([]byte{0}), A("D")))))
				sec := secret(r, r.Range(12, 19), "GHJKLMNPQRSTUVWXYZ")
				wire := append([]byte("0100\x40\x00\x00\x00\x00\x00\x00\x00"), sec...)
				emit(L(A("msg"), spec, L(op("note", L(A("c18"), X(sec))), op("unpack", X(wire)), op("get"))))
			}
		}
		// a complete short field landing where the next field's prefix is expected (its own length corrupted to zero)
		for _, pref := range allVarPrefixers() {
			w := shapeOf(pref).width()
			if pref == "BerTLV" || w < 8 {
				continue
			}
			spec := L(A("M"), L(A("P"), A("String"), A("ASCII"), A("ASCII.Fixed"), I(4), A("N"), X([]byte{0}), A("D")), L(I(8), A("1"), A("Binary"), A("Binary.Fixed")),
				L(L(I(2), L(A("P"), A("String"), A("ASCII"), A("ASCII.LL"), I(20), A("N"), X([]byte{0}), A("D"))),
					L(I(3), L(A("P"), A("String"), A("ASCII"), A(pref), I(99), A("N"), X([]byte{0}), A("D")))))
			for k := 0; k < 4; k++ {
				sec := secret(r, w, "GHJKLMNPQRSTUVWXYZ")
				wire := append([]byte("0100\x60\x00\x00\x00\x00\x00\x00\x0000"), sec...)
				wire = append(wire, []byte("000000000003abc")...)
				emit(L(A("msg"), spec, L(op("note", L(A("c18"), X(sec))), op("unpack", X(wire)), op("get"))))
			}
		}
		// failure-inducing histories carrying a high-entropy secret (model: outcome classes; oracle: greps the texts)
		nm := 400
		if tier == "thorough" {
			nm = 8000
		}
		for i := 0; i < nm; i++ {
			g := genMsg(r, false)
			if len(g.ids) == 0 {
				continue
			}
			sec := secret(r, r.Range(12, 19), "0123456789")
			if r.Bool() {
				sec = secret(r, r.Range(12, 19), "ABCDEFGHJKLMNPQRSTUVWXYZ23456789")
			}
			note := op("note", L(A("c18"), X(sec)))
			id := g.ids[r.Intn(len(g.ids))]
			bad := append([]byte(nil), sec...)
			bad[r.Intn(len(bad))] = Pick(r, []byte{'x', '?', 0xff, ' ', 'G'})
			// the secret (or a corrupted copy) set into a field, then every operation that can fail
			emit(L(A("msg"), g.term, L(note, op("mti", X([]byte("0100"))), op("field", I(id), X(sec)), op("pack"), op("json"), op("get"))))
			emit(L(A("msg"), g.term, L(note, op("mti", X([]byte("0100"))), op("field", I(id), X(bad)), op("pack"), op("json"), op("get"))))
			// on the wire: a valid message around the secret, then corrupted / truncated / prefix-edited
			ops := []*Sx{op("mti", X([]byte("0100")))}
			for _, fid := range g.ids {
				ops = append(ops, op("setval", I(fid), genValue(r, g.nodes[fid])))
			}
			ops = append(ops, op("pack"))
			res := func() []string { defer func() { recover() }(); return runMsgOps(g.term, ops) }()
			if res != nil && strings.HasPrefix(res[len(res)-1], "ok ") {
				packed := A(res[len(res)-1][3:]).Hex()
				pos := 0
				if len(packed) > 0 {
					pos = r.Intn(len(packed))
				}
				wire := append(append(append([]byte(nil), packed[:pos]...), sec...), packed[pos:]...)
				emit(L(A("msg"), g.term, L(note, op("unpack", X(wire)), op("get"))))
				emit(L(A("msg"), g.term, L(note, op("unpack", X(append(append([]byte(nil), sec...), packed...))), op("get"))))
				emit(L(A("msg"), g.term, L(note, op("unpack", X(mutate(r, wire))), op("get"))))
			}
			// JSON documents with the secret under wrong types
			jbad := append([]byte(nil), bad...)
			for k, c := range jbad {
				if c >= 0x80 {
					jbad[k] = '~'
				}
			}
			// (no observation afterwards: a failing UnmarshalJSON leaves a state that depends on Go's map order)
			doc := L(A("jo"), L(L(X([]byte(fmt.Sprint(id))), L(A("js"), X(jbad))), L(X([]byte("0")), L(A("js"), X(sec)))))
			emit(L(A("msg"), g.term, L(note, op("fromjson", doc))))
		}
	}

	regCheck("C18", "desc.pan", func(a []*Sx) (bool, []Finding) { return describeCheck(a[0].Hex(), 2, 8) })
	regCheck("C18", "desc.pin", func(a []*Sx) (bool, []Finding) { return describeCheck(a[0].Hex(), 52, 4) })
	regCheck("C18", "msg", func(a []*Sx) (bool, []Finding) {
		var sec []byte
		for _, o := range a[1].List {
			if o.Head() == "note" && o.List[1].Head() == "c18" {
				sec = o.List[1].List[1].Hex()
			}
		}
		if sec == nil {
			return false, nil
		}
		ms := buildMessageSpec(a[0])
		m := iso8583.NewMessage(ms)
		var fs []Finding
		check := func(what string, err error) {
			if err == nil {
				return
			}
			if bytes.Contains([]byte(err.Error()), sec) {
				fs = append(fs, Finding{"c18-error-leak:" + what, fmt.Sprintf("the error text of %s contains the complete field contents: %.120q", what, err.Error())})
			}
		}
		for _, o := range a[1].List {
			switch o.Head() {
			case "mti":
				m.MTI(string(o.List[1].Hex()))
			case "field":
				check("Field", m.BinaryField(o.List[1].Int(), o.List[2].Hex()))
			case "setval":
				runOneMsgOp(m, o)
			case "pack":
				_, err := m.Pack()
				check("Pack", err)
			case "json":
				_, err := m.MarshalJSON()
				check("MarshalJSON", err)
			case "unpack":
				check("Unpack", m.Unpack(o.List[1].Hex()))
			case "fromjson":
				check("UnmarshalJSON", m.UnmarshalJSON(renderJdoc(o.List[1])))
			}
		}
		// Unmarshal into wrongly typed targets: every present field into int, int64, string and []byte targets
		for id, f := range m.GetFields() {
			if id < 2 {
				continue
			}
			if _, isComp := f.(*field.Composite); isComp {
				continue
			}
			for _, t := range []reflect.Type{reflect.TypeOf(0), reflect.TypeOf(int64(0)), reflect.TypeOf(""), reflect.TypeOf([]byte(nil)), reflect.TypeOf((*int)(nil)), reflect.TypeOf((*int64)(nil))} {
				st := reflect.StructOf([]reflect.StructField{{Name: "X", Type: t, Tag: reflect.StructTag(fmt.Sprintf(`index:"%d"`, id))}})
				p := reflect.New(st)
				func() {
					defer func() { recover() }()
					check("Unmarshal", m.Unmarshal(p.Interface()))
				}()
			}
		}
		// Marshal of the secret under the wrong type
		for _, id := range presentIDs(m) {
			for _, v := range []any{string(sec), sec} {
				st := reflect.StructOf([]reflect.StructField{{Name: "X", Type: reflect.TypeOf(v), Tag: reflect.StructTag(fmt.Sprintf(`index:"%d"`, id))}})
				p := reflect.New(st)
				p.Elem().Field(0).Set(reflect.ValueOf(v))
				g := iso8583.NewMessage(ms)
				func() {
					defer func() { recover() }()
					check("Marshal", g.Marshal(p.Interface()))
					_, err := g.Pack()
					check("Pack", err)
				}()
			}
			break
		}
		// an all-digit secret that does not fit an int64, marshalled as a string into numeric fields
		dig := []byte("9")
		for i := 0; len(dig) < 19; i++ {
			dig = append(dig, '0'+sec[i%len(sec)]%10)
		}
		nNum := 0
		for id, f := range ms.Fields {
			if _, ok := f.(*field.Numeric); !ok || id < 2 || nNum >= 3 {
				continue
			}
			nNum++
			for _, v := range []any{string(dig), func() *string { x := string(dig); return &x }()} {
				st := reflect.StructOf([]reflect.StructField{{Name: "X", Type: reflect.TypeOf(v), Tag: reflect.StructTag(fmt.Sprintf(`index:"%d"`, id))}})
				p := reflect.New(st)
				p.Elem().Field(0).Set(reflect.ValueOf(v))
				g := iso8583.NewMessage(ms)
				func() {
					defer func() { recover() }()
					if err := g.Marshal(p.Interface()); err != nil && bytes.Contains([]byte(err.Error()), dig) {
						fs = append(fs, Finding{"c18-error-leak:Marshal", fmt.Sprintf("the error text of Marshal contains the complete value: %.140q", err.Error())})
					}
				}()
			}
		}
		return true, fs
	})
}

func describeCheck(v []byte, id int, minLen int) (bool, []Finding) {
	if bytes.ContainsAny(v, "*") || len(v) < minLen {
		return false, nil
	}
	var fs []Finding
	for name, spec := range shippedSpecs {
		f, ok := spec.Fields[id]
		if !ok {
			continue
		}
		if _, isString := f.(*field.String); !isString {
			continue
		}
		m := iso8583.NewMessage(spec)
		m.MTI("0100")
		m.Field(id, string(v))
		_, text, _ := describeValues(m)
		if strings.Contains(text, string(v)) {
			fs = append(fs, Finding{fmt.Sprintf("c18-describe-leak:%d", id), fmt.Sprintf("Describe under %s prints the complete contents of field %d", name, id)})
		}
	}
	return true, fs
}

var _ = json.Marshal
