package main

import (
	"bufio"
	"fmt"
	"os"
)

// A propCheck evaluates one property on the implementation for one case; it returns findings
// (key = specific classification used by known_findings.json, what = human description).
type Finding struct{ Key, What string }
type propCheck func(args []*Sx) (nontrivial bool, fs []Finding)

// propChecks[property][case head]
var propChecks = map[string]map[string]propCheck{}

func regCheck(prop, head string, f propCheck) {
	if propChecks[prop] == nil {
		propChecks[prop] = map[string]propCheck{}
	}
	propChecks[prop][head] = f
}

func runOracle(prop string, from int, out *bufio.Writer) {
	checks := propChecks[prop]
	idx := -1
	sc := bufio.NewScanner(os.Stdin)
	sc.Buffer(make([]byte, 1<<20), 1<<26)
	ev, nt := 0, 0
	for sc.Scan() {
		line := sc.Text()
		idx++
		if idx < from {
			continue
		}
		// progress marker: lets the driver find the case that killed the process (fatal runtime errors
		// such as out-of-memory cannot be recovered)
		fmt.Fprintf(os.Stderr, "@%d\n", idx)
		out.Flush()
		sx, err := parseSx(line)
		if err != nil {
			continue
		}
		f, ok := checks[sx.Head()]
		if !ok {
			continue
		}
		func() {
			defer func() {
				if r := recover(); r != nil {
					fmt.Fprintf(out, "FINDING\tpanic:%s\tthe implementation panicked: %v\t%s\n", sx.Head(), r, line)
				}
			}()
			n, fs := f(sx.Args())
			ev++
			if n {
				nt++
			}
			for _, x := range fs {
				fmt.Fprintf(out, "FINDING\t%s\t%s\t%s\n", x.Key, x.What, line)
			}
		}()
	}
	fmt.Fprintf(out, "STAT\t%d\t%d\n", ev, nt)
}
