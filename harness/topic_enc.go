package main

import (
	"fmt"

	"github.com/moov-io/iso8583/encoding"
)

var encoders = map[string]encoding.Encoder{
	"ASCII": encoding.ASCII, "Binary": encoding.Binary, "BCD": encoding.BCD, "LBCD": encoding.LBCD,
	"Hex": encoding.BytesToASCIIHex, "HexToBytes": encoding.ASCIIHexToBytes,
	"EBCDIC": encoding.EBCDIC, "EBCDIC1047": encoding.EBCDIC1047, "BerTag": encoding.BerTLVTag,
}
var encoderNames = []string{"ASCII", "Binary", "BCD", "LBCD", "Hex", "HexToBytes", "EBCDIC", "EBCDIC1047", "BerTag"}

// alphabet of values an encoder is meant for (its domain), and a few bytes outside it
func encAlphabet(name string) (in []byte, out []byte) {
	switch name {
	case "BCD", "LBCD":
		return []byte("0123456789"), []byte{'/', ':', 'A', 0x00, 0xff, ' '}
	case "HexToBytes", "BerTag":
		return []byte("0123456789ABCDEFabcdef"), []byte{'G', 'g', '/', ':', '@', '`', 0x00, 0xff}
	case "ASCII", "EBCDIC1047":
		return []byte("09AZaz ~\x00\x7f=^?*-"), []byte{0x80, 0xff, 0xc2, 0xc3, 0xa9, 0xbf}
	}
	return []byte{0x00, '0', 'A', 0x7f, 0x80, 0xff, 0xf0, 0x1f}, nil
}

func init() {
	executors["enc.enc"] = func(a []*Sx) string {
		out, err := encoders[a[0].Atom].Encode(a[1].Hex())
		if err != nil {
			return "err"
		}
		return "ok " + xh(out)
	}
	executors["enc.dec"] = func(a []*Sx) string {
		out, read, err := encoders[a[0].Atom].Decode(a[2].Hex(), a[1].Int())
		if err != nil {
			return "err"
		}
		return fmt.Sprintf("ok %s %d", xh(out), read)
	}
	generators["enc"] = func(r *Rng, tier string, emit func(*Sx)) {
		thorough := tier == "thorough"
		for _, name := range encoderNames {
			e := encoders[name]
			in, out := encAlphabet(name)
			// every single byte value: encode it, decode it for 0,1,2 units
			for b := 0; b < 256; b++ {
				emit(L(A("enc.enc"), A(name), X([]byte{byte(b)})))
				emit(L(A("enc.enc"), A(name), X([]byte{byte(b), in[0]})))
				for n := 0; n <= 2; n++ {
					emit(L(A("enc.dec"), A(name), I(n), X([]byte{byte(b)})))
					emit(L(A("enc.dec"), A(name), I(n), X([]byte{byte(b), byte(b ^ 0x5a)})))
				}
			}
			// all strings up to length 4 (quick: 3) over a 5-letter sub-alphabet of the domain + one outsider
			alpha := []byte{in[0], in[len(in)/2], in[len(in)-1], in[1%len(in)], in[(len(in)/3)%len(in)]}
			if len(out) > 0 {
				alpha = append(alpha, out[r.Intn(len(out))])
			}
			maxLen := 3
			if thorough {
				maxLen = 4
			}
			var rec func(cur []byte)
			rec = func(cur []byte) {
				emit(L(A("enc.enc"), A(name), X(cur)))
				if enc, err := e.Encode(append([]byte(nil), cur...)); err == nil {
					for _, dl := range []int{-1, len(cur), len(cur) + 1} {
						emit(L(A("enc.dec"), A(name), I(dl), X(append(append([]byte(nil), enc...), 0x31, 0x32))))
					}
				}
				emit(L(A("enc.dec"), A(name), I(len(cur)), X(cur)))
				if len(cur) < maxLen {
					for _, c := range alpha {
						rec(append(append([]byte(nil), cur...), c))
					}
				}
			}
			rec(nil)
			// random in-domain strings, decode with every length -1..len+2 and trailing bytes
			n := 120
			if thorough {
				n = 3000
			}
			for i := 0; i < n; i++ {
				ln := r.Intn(24)
				if r.Chance(1, 8) {
					ln = r.Intn(2001)
				}
				v := r.From(in, ln)
				if name == "Binary" || name == "Hex" || name == "EBCDIC" {
					v = r.Bytes(ln)
				}
				if name == "HexToBytes" && ln%2 == 1 && r.Chance(3, 4) {
					v = v[:ln-1]
				}
				if len(out) > 0 && len(v) > 0 && r.Chance(1, 6) {
					v[r.Intn(len(v))] = out[r.Intn(len(out))]
				}
				emit(L(A("enc.enc"), A(name), X(v)))
				enc, err := e.Encode(append([]byte(nil), v...))
				if err != nil {
					continue
				}
				units := len(v)
				if name == "HexToBytes" {
					units = len(enc)
				}
				trail := r.Bytes(r.Intn(4))
				full := append(append([]byte(nil), enc...), trail...)
				if ln <= 24 {
					for dl := -1; dl <= units+2; dl++ {
						emit(L(A("enc.dec"), A(name), I(dl), X(full)))
					}
				} else {
					emit(L(A("enc.dec"), A(name), I(units), X(full)))
					emit(L(A("enc.dec"), A(name), I(units+r.Intn(5)), X(enc)))
				}
				// a corrupted encoding
				if len(full) > 0 {
					m := append([]byte(nil), full...)
					m[r.Intn(len(m))] = byte(r.U64())
					emit(L(A("enc.dec"), A(name), I(units), X(m)))
					emit(L(A("enc.dec"), A(name), I(units), X(m[:r.Intn(len(m))])))
				}
			}
			// one outsider at every position of an otherwise in-domain value of every length 1..40 (word-at-a-time
			// and unrolled scanners have their blind spots at particular lengths and offsets, seeded change C07-i)
			if len(out) > 0 {
				for ln := 1; ln <= 40; ln++ {
					for pos := 0; pos < ln; pos++ {
						v := make([]byte, ln)
						for i := range v {
							v[i] = in[(i+ln)%len(in)]
						}
						v[pos] = out[(ln+pos)%len(out)]
						emit(L(A("enc.enc"), A(name), X(v)))
						if name == "ASCII" || name == "EBCDIC1047" {
							emit(L(A("enc.dec"), A(name), I(ln), X(append(v, 0x41, 0x42, 0x43)[:ln+(pos%4)])))
						}
					}
				}
			}
			// adversarial lengths
			for _, dl := range []int{-1 << 63, -2, 1 << 31, 1<<31 - 1, 1<<62 + 1, 1<<63 - 1, 1<<63 - 2, 1 << 40} {
				emit(L(A("enc.dec"), A(name), I(dl), X(r.Bytes(r.Intn(9)))))
			}
		}
		// all BER tag shapes of 1-4 bytes: first byte classes x continuation patterns, with trailing bytes
		firsts := []byte{0x00, 0x1e, 0x1f, 0x5f, 0x9f, 0xbf, 0xdf, 0xff, 0x82, 0x9a, 0x3f, 0x7f, 0x20}
		conts := []byte{0x00, 0x01, 0x7f, 0x80, 0x81, 0xff, 0x2a}
		for _, f := range firsts {
			emit(L(A("enc.dec"), A("BerTag"), I(0), X([]byte{f})))
			for _, c1 := range conts {
				emit(L(A("enc.dec"), A("BerTag"), I(1), X([]byte{f, c1})))
				for _, c2 := range conts {
					emit(L(A("enc.dec"), A("BerTag"), I(2), X([]byte{f, c1, c2})))
					for _, c3 := range conts {
						emit(L(A("enc.dec"), A("BerTag"), I(-1), X([]byte{f, c1, c2, c3})))
						if thorough || r.Chance(1, 6) {
							emit(L(A("enc.dec"), A("BerTag"), I(9), X([]byte{f, c1, c2, c3, byte(r.U64()), byte(r.U64())})))
						}
					}
				}
			}
		}
		emit(L(A("enc.dec"), A("BerTag"), I(1), X(nil)))
	}
}

// ---- C07 oracle: the encoders' laws evaluated on the real library, against an independent
// description of the standard layouts ----
func stdEncode(name string, v []byte) ([]byte, bool) {
	switch name {
	case "ASCII":
		for _, b := range v {
			if b > 127 {
				return nil, false
			}
		}
		return v, true
	case "Binary":
		return v, true
	case "BCD", "LBCD":
		for _, b := range v {
			if b < '0' || b > '9' {
				return nil, false
			}
		}
		s := append([]byte(nil), v...)
		if len(s)%2 == 1 {
			if name == "BCD" {
				s = append([]byte{'0'}, s...)
			} else {
				s = append(s, '0')
			}
		}
		out := make([]byte, len(s)/2)
		for i := range out {
			out[i] = (s[2*i]-'0')<<4 | (s[2*i+1] - '0')
		}
		return out, true
	case "Hex":
		const hx = "0123456789ABCDEF"
		out := make([]byte, 0, 2*len(v))
		for _, b := range v {
			out = append(out, hx[b>>4], hx[b&15])
		}
		return out, true
	}
	return nil, false
}

func init() {
	regCheck("C07", "enc.enc", func(a []*Sx) (bool, []Finding) {
		name := a[0].Atom
		e := encoders[name]
		v := a[1].Hex()
		var fs []Finding
		add := func(k, w string) { fs = append(fs, Finding{k + ":" + name, w}) }
		enc, err := e.Encode(append([]byte(nil), v...))
		if std, known := stdEncode(name, v); err == nil && (name == "ASCII" || name == "Binary" || name == "BCD" || name == "LBCD" || name == "Hex") {
			if !known {
				add("enc-accepts-out-of-domain", "Encode accepted a value outside the encoder's domain")
			} else if string(std) != string(enc) {
				add("enc-layout", "Encode does not produce the standard layout")
			}
		} else if err != nil && known {
			add("enc-rejects-in-domain", "Encode rejected an in-domain value")
		}
		if err != nil {
			return false, fs
		}
		units := len(v)
		want := v
		switch name {
		case "HexToBytes", "BerTag":
			units = len(enc)
			want = []byte(upper(string(v)))
		case "EBCDIC1047":
			// units on decode are EBCDIC bytes; the text domain inside fields is ASCII
			units = len(enc)
		}
		for _, trail := range [][]byte{nil, {0x31}, {0xff, 0x00, 0x41}} {
			if name == "BerTag" && len(trail) > 0 && !berTagWellFormed(enc) {
				continue
			}
			dec, read, err := e.Decode(append(append([]byte(nil), enc...), trail...), units)
			if name == "BerTag" && !berTagWellFormed(enc) {
				continue // not a tag: outside the domain
			}
			if err != nil {
				add("roundtrip-error", "Decode rejects the encoding of an in-domain value")
			} else if string(dec) != string(want) {
				add("roundtrip-value", "Decode(Encode(x)) differs from x")
			} else if read != len(enc) {
				add("roundtrip-read", "Decode does not report consuming exactly the encoded length")
			}
		}
		return len(v) > 0, fs
	})
	regCheck("C07", "enc.dec", func(a []*Sx) (bool, []Finding) {
		name := a[0].Atom
		e := encoders[name]
		n, d := a[1].Int(), a[2].Hex()
		var fs []Finding
		add := func(k, w string) { fs = append(fs, Finding{k + ":" + name, w}) }
		dec, read, err := e.Decode(append([]byte(nil), d...), n)
		if err != nil {
			return false, nil
		}
		if name != "BerTag" && n < 0 {
			add("dec-negative", "Decode accepted a negative length")
			return true, fs
		}
		if read < 0 || read > len(d) {
			add("dec-read-range", "Decode reports reading more bytes than there are")
			return true, fs
		}
		switch name {
		case "ASCII", "Binary", "EBCDIC":
			if len(dec) != n || read != n {
				add("dec-units", "decoded value does not have the requested number of units")
			}
			if name == "ASCII" {
				// never a wrong value: ASCII text is the bytes themselves, and only bytes 0..127 are ASCII
				for i, c := range dec {
					if c > 127 {
						add("dec-accepts-out-of-domain", "Decode accepted a byte above 127 as ASCII")
						break
					}
					if i < len(d) && c != d[i] {
						add("dec-wrong-value", "decoded ASCII text is not the input bytes")
						break
					}
				}
			}
		case "BCD", "LBCD":
			if len(dec) != n || read != (n+1)/2 {
				add("dec-units", "decoded value does not have the requested number of digits")
			}
			// never a wrong value: the digits are exactly the nibbles of the input
			for i, c := range dec {
				k := i
				if name == "BCD" {
					k = i + (2*read - n)
				}
				nib := d[k/2] >> 4
				if k%2 == 1 {
					nib = d[k/2] & 15
				}
				if c != '0'+nib || nib > 9 {
					add("dec-wrong-value", "decoded digits are not the nibbles of the input")
					break
				}
			}
		case "Hex":
			if len(dec) != n || read != 2*n {
				add("dec-units", "decoded value does not have the requested number of bytes")
			}
		case "HexToBytes":
			if len(dec) != 2*n || read != n {
				add("dec-units", "decoded value does not have the requested number of units")
			}
		case "BerTag":
			if !berTagWellFormed(d[:read]) || len(dec) != 2*read {
				add("dec-bertag", "decoded BER tag does not follow the continuation rule")
			}
		}
		// the decoded value re-encodes and decodes to itself
		if name != "EBCDIC1047" {
			re, err := e.Encode(append([]byte(nil), dec...))
			if err != nil {
				add("dec-not-reencodable", "Decode produced a value that Encode rejects")
			} else {
				units := n
				d2, _, err := e.Decode(re, units)
				if err != nil || string(d2) != string(dec) {
					add("dec-reencode-differs", "re-encoding the decoded value does not decode to it again")
				}
			}
		}
		return true, fs
	})
}

func upper(s string) string {
	b := []byte(s)
	for i, c := range b {
		if c >= 'a' && c <= 'z' {
			b[i] = c - 32
		}
	}
	return string(b)
}

// the BER continuation rule, stated independently of the library
func berTagWellFormed(t []byte) bool {
	if len(t) == 0 {
		return false
	}
	if t[0]&0x1f != 0x1f {
		return len(t) == 1
	}
	if len(t) < 2 {
		return false
	}
	for i := 1; i < len(t); i++ {
		last := i == len(t)-1
		if (t[i]&0x80 != 0) == last {
			return false
		}
	}
	return true
}
