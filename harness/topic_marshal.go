package main

import (
	"bytes"
	"fmt"
	"reflect"
	"strings"

	"github.com/moov-io/iso8583"
	"github.com/moov-io/iso8583/field"
)

// ---- type terms -> reflect.Type ----
// str | int | int64 | bytes | (ptr T) | (lib Kind) | (struct ((xindex xiso xname T)...))
func gtyOf(t *Sx) reflect.Type {
	if !t.IsL {
		switch t.Atom {
		case "str":
			return reflect.TypeOf("")
		case "int":
			return reflect.TypeOf(0)
		case "int64":
			return reflect.TypeOf(int64(0))
		case "bytes":
			return reflect.TypeOf([]byte(nil))
		}
		panic("bad type " + t.Atom)
	}
	switch t.Head() {
	case "ptr":
		return reflect.PointerTo(gtyOf(t.List[1]))
	case "lib":
		switch t.List[1].Atom {
		case "String":
			return reflect.TypeOf((*field.String)(nil))
		case "Numeric":
			return reflect.TypeOf((*field.Numeric)(nil))
		case "Binary":
			return reflect.TypeOf((*field.Binary)(nil))
		case "Hex":
			return reflect.TypeOf((*field.Hex)(nil))
		}
	case "struct":
		var fs []reflect.StructField
		for _, d := range t.List[1].List {
			idx, iso, name := string(d.List[0].Hex()), string(d.List[1].Hex()), string(d.List[2].Hex())
			tag := ""
			if idx != "" {
				tag += fmt.Sprintf(`index:"%s" `, idx)
			}
			if iso != "" {
				tag += fmt.Sprintf(`iso8583:"%s"`, iso)
			}
			fs = append(fs, reflect.StructField{Name: name, Type: gtyOf(d.List[3]), Tag: reflect.StructTag(strings.TrimSpace(tag))})
		}
		return reflect.StructOf(fs)
	}
	panic("bad type term " + t.String())
}

// ---- value terms -> reflect.Value of the given type ----
func gvalOf(t *Sx, v *Sx) reflect.Value {
	rt := gtyOf(t)
	out := reflect.New(rt).Elem()
	if !v.IsL {
		return out // bnil / pnil / libnil: the zero value
	}
	switch v.Head() {
	case "s":
		out.SetString(string(v.List[1].Hex()))
	case "i", "l":
		out.SetInt(int64(v.List[1].Int()))
	case "b":
		b := v.List[1].Hex()
		if b == nil {
			b = []byte{}
		}
		out.SetBytes(append([]byte{}, b...))
	case "p":
		inner := gvalOf(t.List[1], v.List[1])
		p := reflect.New(inner.Type())
		p.Elem().Set(inner)
		out.Set(p)
	case "lib":
		fv := v.List[1]
		out.Set(leafFieldValue(fv))
	case "st":
		for i, fvv := range v.List[1].List {
			out.Field(i).Set(gvalOf(t.List[1].List[i].List[3], fvv))
		}
	}
	return out
}

func showGval(t *Sx, v reflect.Value) string {
	if !t.IsL {
		switch t.Atom {
		case "str":
			return "(s " + xh([]byte(v.String())) + ")"
		case "int":
			return fmt.Sprintf("(i %d)", v.Int())
		case "int64":
			return fmt.Sprintf("(l %d)", v.Int())
		case "bytes":
			if v.IsNil() || v.Len() == 0 {
				return "bnil" // nil and empty slices are not distinguished
			}
			return "(b " + xh(v.Bytes()) + ")"
		}
	}
	switch t.Head() {
	case "ptr":
		if v.IsNil() {
			return "pnil"
		}
		return "(p " + showGval(t.List[1], v.Elem()) + ")"
	case "lib":
		if v.IsNil() {
			return "libnil"
		}
		return "(lib " + showVal(v.Interface().(field.Field)) + ")"
	case "struct":
		var parts []string
		for i, d := range t.List[1].List {
			parts = append(parts, showGval(d.List[3], v.Field(i)))
		}
		return "(st (" + strings.Join(parts, " ") + "))"
	}
	return "?"
}

func runMarshalCase(a []*Sx) (string, *iso8583.Message, reflect.Value) {
	ms := buildMessageSpec(a[0])
	m := iso8583.NewMessage(ms)
	in := gvalOf(a[1], a[2])
	o1 := "ok"
	if err := m.Marshal(in.Interface()); err != nil {
		o1 = "err"
	}
	present := showPresent(m)
	o2 := "err"
	if p, err := m.Pack(); err == nil {
		o2 = "ok " + xh(p)
	}
	target := reflect.New(gtyOf(a[1].List[1]))
	if len(a) > 3 {
		// a pre-filled target: Unmarshal writes only the struct fields whose message field is present
		target = gvalOf(a[1], a[3])
	}
	o3 := "err"
	if err := m.Unmarshal(target.Interface()); err == nil {
		o3 = "ok " + showGval(a[1], target)
	}
	return strings.Join([]string{o1, present, o2, o3}, " | "), m, target
}

// a value of the struct type st with every pointer allocated and every leaf non-zero
func fullValueFor(r *Rng, n *gnode, st *Sx) *Sx {
	var vals []*Sx
	for _, d := range st.List[1].List {
		ty := d.List[3]
		key := declKey(d)
		sub := n.subs[key]
		if sub == nil {
			// the MTI declaration of the message struct
			vals = append(vals, L(A("s"), X([]byte("0810"))))
			continue
		}
		if sub.comp {
			vals = append(vals, L(A("p"), fullValueFor(r, sub, ty.List[1])))
			continue
		}
		vals = append(vals, goValueFor(r, sub.kind, ty.String(), genPrimValue(r, sub), false))
	}
	return L(A("st"), L(vals...))
}

// the documented cells of the matrix (Appendix A of DESIGN.md): kind x Go type
func documentedCell(kind string, ty string) bool {
	switch kind {
	case "String":
		return map[string]bool{"str": true, "int": true, "int64": true, "(ptr str)": true, "(ptr int)": true, "(ptr int64)": true, "(lib String)": true}[ty]
	case "Numeric":
		return map[string]bool{"str": true, "int64": true, "(ptr str)": true, "(ptr int64)": true, "(lib Numeric)": true}[ty]
	case "Binary":
		return map[string]bool{"str": true, "(ptr str)": true, "bytes": true, "(ptr bytes)": true, "(lib Binary)": true}[ty]
	case "Hex":
		return map[string]bool{"str": true, "(ptr str)": true, "bytes": true, "(ptr bytes)": true, "(lib Hex)": true}[ty]
	}
	return false
}

var leafGoTypes = []string{"str", "int", "int64", "bytes", "(ptr str)", "(ptr int)", "(ptr int64)", "(ptr bytes)", "(lib String)", "(lib Numeric)", "(lib Binary)", "(lib Hex)"}

// a Go value of type ty carrying the field value v (a leaf value term), or its zero value
func goValueFor(r *Rng, kind, ty string, v *Sx, zero bool) *Sx {
	p := func(s string) *Sx { x, _ := parseSx(s); return x }
	raw, _ := refRaw(v)
	num := 0
	if v.Head() == "N" {
		num = v.List[1].Int()
	} else {
		fmt.Sscan(string(raw), &num)
	}
	text := raw
	if kind == "Binary" {
		text = []byte(fmt.Sprintf("%x", raw))
	}
	if kind == "Hex" {
		text = v.List[1].Hex()
	}
	switch ty {
	case "str":
		if zero {
			return L(A("s"), X(nil))
		}
		return L(A("s"), X(text))
	case "int":
		if zero {
			return L(A("i"), I(0))
		}
		return L(A("i"), I(num))
	case "int64":
		if zero {
			return L(A("l"), I(0))
		}
		return L(A("l"), I(num))
	case "bytes":
		if zero {
			return A("bnil")
		}
		return L(A("b"), X(raw))
	case "(ptr str)", "(ptr int)", "(ptr int64)", "(ptr bytes)":
		if zero {
			if r.Bool() {
				return A("pnil")
			}
			return L(A("p"), goValueFor(r, kind, ty[5:len(ty)-1], v, true))
		}
		return L(A("p"), goValueFor(r, kind, ty[5:len(ty)-1], v, false))
	}
	// library types
	if zero {
		return A("libnil")
	}
	want := map[string]string{"(lib String)": "S", "(lib Numeric)": "N", "(lib Binary)": "B", "(lib Hex)": "H"}[ty]
	if v.Head() == want {
		return L(A("lib"), v)
	}
	switch want {
	case "S":
		return L(A("lib"), L(A("S"), X(raw)))
	case "N":
		return L(A("lib"), L(A("N"), I(num)))
	case "B":
		return L(A("lib"), L(A("B"), X(raw)))
	}
	return L(A("lib"), L(A("H"), X([]byte(strings.ToUpper(fmt.Sprintf("%x", raw))))))
	_ = p
	return nil
}

var fieldNameSeq int

// struct declaration for one (sub)field key in one of the three tag styles
func declFor(r *Rng, key string, keepzero bool, ty *Sx) *Sx {
	fieldNameSeq++
	opt := ""
	if keepzero {
		opt = ",keepzero"
	}
	numeric := true
	for _, c := range key {
		if c < '0' || c > '9' {
			numeric = false
		}
	}
	style := r.Intn(3)
	if keepzero && style == 2 {
		style = r.Intn(2)
	}
	name := fmt.Sprintf("X%d", fieldNameSeq)
	switch style {
	case 0:
		return L(X([]byte(key+opt)), X(nil), X([]byte(name)), ty)
	case 1:
		if r.Chance(1, 4) {
			// both tags: index wins
			return L(X([]byte(key+opt)), X([]byte("999")), X([]byte(name)), ty)
		}
		return L(X(nil), X([]byte(key+opt)), X([]byte(name)), ty)
	}
	// by name F<key>: only for keys that make an identifier
	ident := numeric || isAlnum(key)
	if !ident {
		return L(X([]byte(key+opt)), X(nil), X([]byte(name)), ty)
	}
	return L(X(nil), X(nil), X([]byte("F"+key)), ty)
}

func isAlnum(s string) bool {
	for _, c := range s {
		if !(c >= '0' && c <= '9' || c >= 'A' && c <= 'Z' || c >= 'a' && c <= 'z') {
			return false
		}
	}
	return len(s) > 0
}

// struct type + value for a composite node (nested to the node's depth)
func structFor(r *Rng, n *gnode, documentedOnly bool) (*Sx, *Sx) {
	var decls, vals []*Sx
	usedNames := map[string]bool{}
	for _, tag := range n.order {
		if r.Chance(1, 5) {
			continue
		}
		sub := n.subs[tag]
		keepzero := r.Chance(1, 3)
		zero := r.Chance(1, 4)
		var ty, v *Sx
		if sub.comp {
			st, sv := structFor(r, sub, documentedOnly)
			ty = L(A("ptr"), st)
			v = L(A("p"), sv)
			if zero {
				v = A("pnil")
			}
		} else {
			tyName := Pick(r, leafGoTypes)
			for documentedOnly && !documentedCell(sub.kind, tyName) {
				tyName = Pick(r, leafGoTypes)
			}
			ty, _ = parseSx(tyName)
			v = goValueFor(r, sub.kind, tyName, genPrimValue(r, sub), zero)
		}
		d := declFor(r, tag, keepzero, ty)
		if usedNames[string(d.List[2].Hex())] {
			continue
		}
		usedNames[string(d.List[2].Hex())] = true
		decls = append(decls, d)
		vals = append(vals, v)
	}
	return L(A("struct"), L(decls...)), L(A("st"), L(vals...))
}

func init() {
	executors["marshal"] = func(a []*Sx) string {
		s, _, _ := runMarshalCase(a)
		return s
	}
	generators["marshal"] = func(r *Rng, tier string, emit func(*Sx)) {
		// the whole matrix field kind x Go type x zero/non-zero x keepzero x tag style, on single-field messages
		reps := 2
		if tier == "thorough" {
			reps = 30
		}
		for rep := 0; rep < reps; rep++ {
			for _, kind := range []string{"String", "Numeric", "Binary", "Hex"} {
				for _, tyName := range leafGoTypes {
					for _, zero := range []bool{false, true} {
						for _, keepzero := range []bool{false, true} {
							n := genPrim(r, []string{kind})
							for n.fixed && n.padK == "N" {
								n = genPrim(r, []string{kind})
							}
							id := Pick(r, []int{2, 3, 48, 64})
							spec := L(A("M"), L(A("P"), A("String"), A("ASCII"), A("ASCII.Fixed"), I(4), A("N"), X([]byte{0}), A("D")), L(I(8), A("1"), A("Binary"), A("Binary.Fixed")), L(L(I(id), n.term)))
							ty, _ := parseSx(tyName)
							v := goValueFor(r, kind, tyName, genPrimValue(r, n), zero)
							d := declFor(r, fmt.Sprint(id), keepzero, ty)
							mtiDecl := L(X([]byte("0")), X(nil), X([]byte("MTI")), A("str"))
							emit(L(A("marshal"), spec, L(A("ptr"), L(A("struct"), L(mtiDecl, d))), L(A("p"), L(A("st"), L(L(A("s"), X([]byte("0100"))), v)))))
						}
					}
				}
			}
		}
		// generated message specs with nested composites: one struct covering (most of) the message
		n := 300
		if tier == "thorough" {
			n = 6000
		}
		for i := 0; i < n; i++ {
			g := genMsg(r, false)
			root := &gnode{comp: true, subs: map[string]*gnode{}}
			for _, id := range g.ids {
				root.subs[fmt.Sprint(id)] = g.nodes[id]
				root.order = append(root.order, fmt.Sprint(id))
			}
			st, sv := structFor(r, root, r.Chance(3, 4))
			mtiDecl := L(X(nil), X([]byte("0")), X([]byte("MTI")), A("str"))
			st = L(A("struct"), L(append([]*Sx{mtiDecl}, st.List[1].List...)...))
			sv = L(A("st"), L(append([]*Sx{L(A("s"), X([]byte("0100")))}, sv.List[1].List...)...))
			emit(L(A("marshal"), g.term, L(A("ptr"), st), L(A("p"), sv)))
			// the same message unmarshalled into a fully populated struct
			emit(L(A("marshal"), g.term, L(A("ptr"), st), L(A("p"), sv), L(A("p"), fullValueFor(r, root, st))))
		}
	}

	// ---- C11 oracle ----
	regCheck("C11", "marshal", func(a []*Sx) (bool, []Finding) {
		ms := buildMessageSpec(a[0])
		m := iso8583.NewMessage(ms)
		in := gvalOf(a[1], a[2])
		if err := m.Marshal(in.Interface()); err != nil {
			return false, nil
		}
		var fs []Finding
		stT := a[1].List[1]
		stV := a[2].List[1]
		present := m.GetFields()
		// zero-valued fields are left out unless tagged keepzero; non-zero ones are present
		for i, d := range stT.List[1].List {
			key := declKey(d)
			id := 0
			if _, err := fmt.Sscan(key, &id); err != nil {
				continue
			}
			fv := in.Elem().Field(i)
			_, isPresent := present[id]
			kz := strings.Contains(string(d.List[0].Hex())+string(d.List[1].Hex()), ",keepzero") && (len(d.List[0].Hex()) > 0 || len(d.List[1].Hex()) > 0)
			if len(d.List[0].Hex()) > 0 {
				kz = strings.Contains(string(d.List[0].Hex()), ",keepzero")
			}
			if fv.IsZero() && !kz && isPresent {
				fs = append(fs, Finding{"c11-zero-present", fmt.Sprintf("a zero-valued struct field without keepzero made message field %d present", id)})
			}
			if (!fv.IsZero() || kz) && !isPresent {
				fs = append(fs, Finding{"c11-nonzero-absent", fmt.Sprintf("a non-zero (or keepzero) struct field did not make message field %d present", id)})
			}
		}
		// round trip, directly and via the wire, for structs whose cells are all documented
		documented := allDocumented(a[0].Args()[2], stT)
		check := func(src *iso8583.Message, how string) {
			target := reflect.New(gtyOf(a[1].List[1]))
			err := src.Unmarshal(target.Interface())
			if err != nil {
				if documented {
					key := "c11-unmarshal-fails"
					if strings.Contains(err.Error(), "[]uint8") {
						key = "c11-unmarshal-fails:bytes-target"
					}
					fs = append(fs, Finding{key, "Unmarshal (" + how + ") fails for a struct of documented types: " + safeErr(err)})
				}
				return
			}
			if !documented {
				return
			}
			cmpStruct(stT, in.Elem(), target.Elem(), src, &fs, how)
		}
		check(m, "direct")
		if p, err := m.Pack(); err == nil {
			g := iso8583.NewMessage(ms)
			// the wire leg applies where the message itself survives the wire (C01's domain: e.g. no value that starts with its pad character)
			if g.Unpack(p) == nil && msgObserve(g) == msgObserve(m) {
				check(g, "via Pack/Unpack")
			}
		}
		// Unmarshal writes only the struct fields whose message field is present: a pre-filled target keeps the others
		_ = stV
		if len(a) > 3 {
			orig := gvalOf(a[1], a[3])
			work := gvalOf(a[1], a[3])
			if err := m.Unmarshal(work.Interface()); err == nil {
				var walk func(st *Sx, o, w reflect.Value, present map[string]field.Field, path string)
				walk = func(st *Sx, o, w reflect.Value, present map[string]field.Field, path string) {
					for i, d := range st.List[1].List {
						key := declKey(d)
						if key == "" {
							continue
						}
						pf, isPresent := present[key]
						ty := d.List[3]
						if !isPresent {
							if showGval(ty, o.Field(i)) != showGval(ty, w.Field(i)) {
								fs = append(fs, Finding{"c11-absent-overwritten", fmt.Sprintf("struct field %s%s was overwritten by Unmarshal though message field %s is absent: %s became %s", path, string(d.List[2].Hex()), key, clip(showGval(ty, o.Field(i))), clip(showGval(ty, w.Field(i))))})
								return
							}
							continue
						}
						if c, ok := pf.(*field.Composite); ok && ty.IsL && ty.Head() == "ptr" && ty.List[1].IsL && ty.List[1].Head() == "struct" && !o.Field(i).IsNil() && !w.Field(i).IsNil() {
							walk(ty.List[1], o.Field(i).Elem(), w.Field(i).Elem(), c.GetSubfields(), path+string(d.List[2].Hex())+".")
						}
					}
				}
				top := map[string]field.Field{}
				for id, f := range m.GetFields() {
					top[fmt.Sprint(id)] = f
				}
				walk(stT, orig.Elem(), work.Elem(), top, "")
			}
		}
		return true, fs
	})
}

func declKey(d *Sx) string {
	for _, k := range []int{0, 1} {
		if v := string(d.List[k].Hex()); v != "" {
			return strings.SplitN(v, ",", 2)[0]
		}
	}
	name := string(d.List[2].Hex())
	if strings.HasPrefix(name, "F") && len(name) > 1 {
		return name[1:]
	}
	return ""
}

func allDocumented(fieldSpecs *Sx, st *Sx) bool {
	specs := map[string]*Sx{}
	for _, f := range fieldSpecs.List {
		if f.List[0].IsL {
			continue
		}
		k := f.List[0].Atom
		if strings.HasPrefix(k, "x") {
			k = string(f.List[0].Hex())
		}
		specs[k] = f.List[1]
	}
	for _, d := range st.List[1].List {
		key := declKey(d)
		sp, ok := specs[key]
		if !ok {
			continue
		}
		ty := d.List[3]
		if sp.Head() == "C" {
			if ty.Head() != "ptr" || ty.List[1].Head() != "struct" {
				return false
			}
			if !allDocumented(sp.List[4], ty.List[1]) {
				return false
			}
			continue
		}
		if !documentedCell(sp.List[1].Atom, ty.String()) {
			return false
		}
	}
	return true
}

// every non-zero field comes back unchanged up to the target field's canonical form; absent fields stay untouched
func cmpStruct(st *Sx, in, out reflect.Value, m *iso8583.Message, fs *[]Finding, how string) {
	for i, d := range st.List[1].List {
		a, b := in.Field(i), out.Field(i)
		if !sameNonZero(d.List[3], a, b) {
			*fs = append(*fs, Finding{"c11-roundtrip", fmt.Sprintf("struct field %s (%s) came back as %s, was %s", string(d.List[2].Hex()), how, clip(canon(d.List[3], b)), clip(canon(d.List[3], a)))})
			return
		}
	}
}

// every non-zero field of a (at any depth) is equal in b up to canonical form; zero-valued fields of a are not compared
func sameNonZero(t *Sx, a, b reflect.Value) bool {
	if a.IsZero() {
		return true
	}
	if t.IsL && t.Head() == "ptr" && t.List[1].IsL && t.List[1].Head() == "struct" {
		if b.IsNil() {
			return false
		}
		st := t.List[1]
		for i, d := range st.List[1].List {
			if !sameNonZero(d.List[3], a.Elem().Field(i), b.Elem().Field(i)) {
				return false
			}
		}
		return true
	}
	return canon(t, a) == canon(t, b)
}

// canonical form of a Go value for comparison: pointers dereferenced, hex text case-folded, numerics as integers,
// zero sub-values dropped
func canon(t *Sx, v reflect.Value) string {
	if !t.IsL {
		switch t.Atom {
		case "str":
			s := v.String()
			return "s:" + strings.ToUpper(strings.TrimLeft(s, "0")) // numeric strings: leading zeros; hex strings: case
		case "int", "int64":
			return fmt.Sprintf("s:%d", v.Int())
		case "bytes":
			return "b:" + strings.ToUpper(fmt.Sprintf("%x", v.Bytes()))
		}
	}
	switch t.Head() {
	case "ptr":
		if v.IsNil() {
			return "nil"
		}
		return canon(t.List[1], v.Elem())
	case "lib":
		if v.IsNil() {
			return "nil"
		}
		f := v.Interface().(field.Field)
		s, _ := f.String()
		if bf, ok := f.(*field.Binary); ok {
			return "b:" + strings.ToUpper(fmt.Sprintf("%x", bf.Value()))
		}
		if _, ok := f.(*field.Hex); ok {
			return "b:" + strings.ToUpper(s)
		}
		return "s:" + strings.ToUpper(strings.TrimLeft(s, "0"))
	case "struct":
		var parts []string
		for i, d := range t.List[1].List {
			if v.Field(i).IsZero() {
				parts = append(parts, "-")
				continue
			}
			parts = append(parts, canon(d.List[3], v.Field(i)))
		}
		return "{" + strings.Join(parts, ",") + "}"
	}
	return "?"
}

var _ = bytes.Equal
