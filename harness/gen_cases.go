package main

import (
	"bytes"
	"sort"
	"strings"
)

func op(name string, args ...*Sx) *Sx { return L(append([]*Sx{A(name)}, args...)...) }

// packedOf runs (set v)(pack) on the real library and returns the bytes (nil when Pack fails)
func packedOf(spec *Sx, v *Sx) []byte {
	defer func() { recover() }()
	out := runFldOps(spec, []*Sx{op("set", v), op("pack")})
	if strings.HasPrefix(out[1], "ok ") {
		return A(out[1][3:]).Hex()
	}
	return nil
}

// mutate a byte string: substitution, insertion, deletion, truncation
func mutate(r *Rng, d []byte) []byte {
	m := append([]byte(nil), d...)
	if len(m) == 0 {
		return r.Bytes(1 + r.Intn(3))
	}
	switch r.Intn(5) {
	case 0:
		m[r.Intn(len(m))] = byte(r.U64())
	case 1:
		i := r.Intn(len(m) + 1)
		m = append(m[:i], append([]byte{byte(r.U64())}, m[i:]...)...)
	case 2:
		i := r.Intn(len(m))
		m = append(m[:i], m[i+1:]...)
	case 3:
		m = m[:r.Intn(len(m))]
	default:
		// edit near the front: prefixes, tags and bitmaps live there
		i := r.Intn(min(len(m), 6))
		m[i] = Pick(r, []byte{0x00, 0xff, 0x80, 0x7f, '0', '9', 'A', 'F', 0x81, 0x84, 0x88, '-', '+', ' '})
	}
	return m
}

func min(a, b int) int {
	if a < b {
		return a
	}
	return b
}

// the standard battery for one (spec, value): pack, round trip with trailing bytes, re-pack, mutants
// prefix + body(v1) + body(v2) of a tagged composite
func doubledBody(n *gnode, v1, v2 *Sx) (out []byte) {
	defer func() {
		if recover() != nil {
			out = nil
		}
	}()
	body := func(v *Sx) []byte {
		f := buildField(n.term)
		applyVal(f, v)
		b, err := f.Bytes()
		if err != nil {
			return nil
		}
		return b
	}
	b1, b2 := body(v1), body(v2)
	if b1 == nil || b2 == nil || len(b1) == 0 || len(b2) == 0 {
		return nil
	}
	sp := buildField(n.term).Spec()
	pre, err := sp.Pref.EncodeLength(sp.Length, len(b1)+len(b2))
	if err != nil {
		return nil
	}
	return append(append(append([]byte(nil), pre...), b1...), b2...)
}

func emitFieldBattery(r *Rng, n *gnode, v *Sx, nmut int, emit func(*Sx)) {
	packed := packedOf(n.term, v)
	if packed == nil {
		emit(L(A("fld"), n.term, L(op("set", v), op("pack"), op("get"))))
		return
	}
	// a composite packed, one of its set subfields unset, packed again: the second encoding is the layout of what is left
	if n.comp && v.Head() == "C" && len(v.List) > 1 && len(v.List[1].List) >= 2 {
		e := v.List[1].List[r.Intn(len(v.List[1].List))]
		emit(L(A("fld"), n.term, L(op("set", v), op("pack"), op("unsetp", e.List[0]), op("pack"), op("get"))))
	}
	trail := r.Bytes(r.Intn(3))
	emit(L(A("fld"), n.term, L(op("set", v), op("pack"), op("get"), op("reset"),
		op("unpack", X(append(append([]byte(nil), packed...), trail...))), op("get"), op("pack"))))
	for i := 0; i < nmut; i++ {
		m := mutate(r, packed)
		emit(L(A("fld"), n.term, L(op("unpack", X(m)), op("get"), op("pack"))))
	}
}

func init() {
	generators["fld"] = func(r *Rng, tier string, emit func(*Sx)) {
		thorough := tier == "thorough"
		// A0. numerals around the ends of the int range on the wire of Numeric fields (19 and 20 digits): whatever is
		// accepted has to re-pack and be accepted again
		for _, enc := range []string{"ASCII", "BCD", "EBCDIC"} {
			for _, pref := range []string{"ASCII.LL", "ASCII.Fixed"} {
				for _, num := range []string{"9223372036854775807", "9223372036854775808", "09223372036854775807", "18446744073709551615", "18446744073709551616",
					"9999999999999999999", "99999999999999999999", "00000000000000000001", "10000000000000000000"} {
					n := &gnode{kind: "Numeric", enc: enc, pref: pref, padK: "N", fixed: strings.HasSuffix(pref, ".Fixed"), L: len(num)}
					if n.fixed {
						n.padK, n.padB = "L", '0'
					}
					n.term = n.primTerm()
					body, ok := refEncode(enc, []byte(num))
					pre, ok2 := refPrefix(pref, n.L, len(num))
					if ok && ok2 {
						emit(L(A("fld"), n.term, L(op("unpack", X(append(append([]byte(nil), pre...), body...))), op("get"), op("pack"))))
					}
				}
			}
		}
		// A. every cell kind x encoding x prefixer x padding, boundary lengths
		prefs := append([]string{}, allVarPrefixers()...)
		for _, f := range prefFamilies {
			prefs = append(prefs, f+".Fixed")
		}
		for _, kind := range []string{"String", "Numeric", "Binary", "Hex"} {
			encs := textEncs
			if kind == "Binary" || kind == "Hex" {
				encs = byteEncs
			}
			for _, enc := range encs {
				for _, pref := range prefs {
					for _, padK := range []string{"N", "L", "R"} {
						if !thorough && !r.Chance(1, 2) {
							continue
						}
						n := &gnode{kind: kind, enc: enc, pref: pref, padK: padK, fixed: strings.HasSuffix(pref, ".Fixed")}
						n.L = Pick(r, []int{1, 2, 3, 5, 8, 9, 10, 11, 12})
						if c := prefCapacity(pref); n.L > c {
							n.L = c
						}
						if padK != "N" {
							n.padB = Pick(r, []byte{' ', '0', 'F', '*'})
							if enc == "BCD" || enc == "LBCD" || kind == "Numeric" {
								n.padB = '0'
							}
						}
						if kind == "Numeric" && (n.fixed || padK == "R") {
							n.padK, n.padB = "L", '0'
						}
						n.term = n.primTerm()
						for _, vl := range []int{0, 1, n.L - 1, n.L} {
							if vl < 0 {
								continue
							}
							emitFieldBattery(r, n, genPrimValueLen(r, n, vl), 1, emit)
						}
						// one over the maximum: Pack must fail
						over := *n
						over.L = n.L + 1
						over.fixed = false
						over.padK = "N"
						v := genPrimValueLen(r, &over, n.L+1)
						emit(L(A("fld"), n.term, L(op("set", v), op("pack"))))
					}
				}
			}
		}
		// A'. capacity of the digit count: declared maximum above what the prefix can express, values at capacity and capacity+1
		for _, fam := range prefFamilies {
			for _, w := range []string{"L", "LL", "LLL"} {
				pref := fam + "." + w
				c := prefCapacity(pref)
				if c > 1100 {
					continue
				}
				for _, kind := range []string{"String", "Binary"} {
					n := &gnode{kind: kind, enc: Pick(r, []string{"ASCII", "Binary", "EBCDIC"}), pref: pref, padK: "N", L: c + 3}
					if kind == "Binary" {
						n.enc = "Binary"
					}
					n.term = n.primTerm()
					for _, vl := range []int{c - 1, c, c + 1, c + 2} {
						alpha := []byte("ABCDEFGHIJ")
						val := r.From(alpha, vl)
						v := L(A("S"), X(val))
						if kind == "Binary" {
							v = L(A("B"), X(val))
						}
						emitFieldBattery(r, n, v, 0, emit)
					}
				}
				// a composite whose total length is at / one over the capacity of its prefix
				sub := &gnode{kind: "String", enc: "ASCII", pref: "ASCII.LLLL", padK: "N", L: 2000}
				sub.term = sub.primTerm()
				comp := L(A("C"), A(pref), I(c+3), L(A("T"), I(0), A("nil"), A("N"), X([]byte{0}), A("ByInt"), A("0"), A("nil")), L(L(X([]byte("1")), sub.term)))
				for _, total := range []int{c, c + 1} {
					if total-4 < 0 {
						continue
					}
					v := L(A("C"), L(L(X([]byte("1")), L(A("S"), X(r.From([]byte("xyz"), total-4))))))
					emitFieldBattery(r, &gnode{term: comp, comp: true}, v, 0, emit)
				}
			}
		}
		// A''. encoding boundaries of the length itself: decades, byte boundary, BER short/long form
		for _, pref := range allVarPrefixers() {
			c := prefCapacity(pref)
			for _, b := range []int{10, 100, 128, 256} {
				for _, vl := range []int{b - 1, b, b + 1} {
					if vl > c {
						continue
					}
					n := &gnode{kind: "String", enc: Pick(r, []string{"ASCII", "EBCDIC", "Binary"}), pref: pref, padK: "N", L: 300}
					if n.L > c {
						n.L = c
					}
					n.term = n.primTerm()
					emitFieldBattery(r, n, L(A("S"), X(r.From([]byte("abcdefgh"), vl))), 0, emit)
					// the same total as the body of a composite under this prefix
					if vl >= 4 {
						sub := &gnode{kind: "String", enc: "ASCII", pref: "ASCII.LLLL", padK: "N", L: 2000}
						sub.term = sub.primTerm()
						comp := L(A("C"), A(pref), I(n.L), L(A("T"), I(0), A("nil"), A("N"), X([]byte{0}), A("ByInt"), A("0"), A("nil")), L(L(X([]byte("1")), sub.term)))
						v := L(A("C"), L(L(X([]byte("1")), L(A("S"), X(r.From([]byte("xyz"), vl-4))))))
						emitFieldBattery(r, &gnode{term: comp, comp: true}, v, 0, emit)
					}
				}
			}
		}
		// B. random primitives with larger lengths and capacities
		nb := 600
		if thorough {
			nb = 12000
		}
		for i := 0; i < nb; i++ {
			n := genPrim(r, []string{"String", "Numeric", "Binary", "Hex"})
			emitFieldBattery(r, n, genPrimValue(r, n), 3, emit)
			// the same object used twice, the second time also for an empty value
			v1 := genPrimValue(r, n)
			p1 := packedOf(n.term, v1)
			empty := map[string]*Sx{"String": L(A("S"), X(nil)), "Numeric": L(A("N"), I(0)), "Binary": L(A("B"), X(nil)), "Hex": L(A("H"), X(nil))}[n.kind]
			for _, v2 := range []*Sx{genPrimValue(r, n), empty} {
				if p2 := packedOf(n.term, v2); p1 != nil && p2 != nil {
					emit(L(A("fld"), n.term, L(op("unpack", X(p1)), op("get"), op("unpack", X(p2)), op("get"), op("pack"))))
					emit(L(A("fld"), n.term, L(op("set", v1), op("unpack", X(p2)), op("get"), op("pack"))))
				}
			}
		}
		// C. composites of all four modes nested to depth 3
		nc := 1500
		if thorough {
			nc = 30000
		}
		for i := 0; i < nc; i++ {
			n := genComp(r, 0)
			for j := 0; j < 2; j++ {
				emitFieldBattery(r, n, genValue(r, n), 4, emit)
			}
			// D. the same object used twice: what it held or unpacked before must not show after the second Unpack
			v1, v2 := genValue(r, n), genValue(r, n)
			p1, p2 := packedOf(n.term, v1), packedOf(n.term, v2)
			if p1 != nil && p2 != nil {
				emit(L(A("fld"), n.term, L(op("set", v1), op("pack"), op("unpack", X(p2)), op("get"), op("pack"))))
				emit(L(A("fld"), n.term, L(op("unpack", X(p1)), op("get"), op("unpack", X(p2)), op("get"), op("pack"))))
			}
			// E. a tagged body in which every element occurs twice (the later occurrence wins; a nested composite is
			// unpacked twice into the same object)
			if n.mode == "tag" || n.mode == "ber" {
				if d := doubledBody(n, v1, v2); d != nil {
					emit(L(A("fld"), n.term, L(op("unpack", X(d)), op("get"), op("pack"))))
				}
			}
		}
		// F. the same with a nested composite whose maximum length is tight (gen_tight.go): the two occurrences hold
		// different subfields, each of which fits the maximum alone
		nt := 150
		if thorough {
			nt = 3000
		}
		for i := 0; i < nt; i++ {
			for try := 0; try < 60; try++ {
				n2, w1, w2 := tightNested(r, genComp(r, 0))
				if n2 == nil {
					continue
				}
				if d := doubledBody(n2, w1, w2); d != nil {
					emit(L(A("fld"), n2.term, L(op("unpack", X(d)), op("get"), op("pack"))))
					break
				}
			}
		}
	}

	generators["msg"] = func(r *Rng, tier string, emit func(*Sx)) {
		nm := 1500
		if tier == "thorough" {
			nm = 30000
		}
		for i := 0; i < nm; i++ {
			g := genMsg(r, r.Chance(1, 8))
			var ids []int
			for _, id := range g.ids {
				if r.Chance(1, 4) {
					continue
				}
				ids = append(ids, id)
			}
			emitMsgBattery(r, g, ids, emit)
		}
		// the shipped specifications (G6), restricted to the fields of the model's grammar: random subsets of their data
		// elements, the same battery
		ns := 60
		if tier == "thorough" {
			ns = 1500
		}
		for _, st := range shippedTerms() {
			g := &gmsg{term: st.term, nodes: map[int]*gnode{}}
			for _, f := range st.term.Args()[2].List {
				if n := nodeFromTerm(f.List[1]); n != nil {
					g.nodes[f.List[0].Int()] = n
					g.ids = append(g.ids, f.List[0].Int())
				}
			}
			if len(g.ids) == 0 {
				continue
			}
			for i := 0; i < ns; i++ {
				var ids []int
				k := 1 + r.Intn(6)
				for j := 0; j < k; j++ {
					ids = append(ids, g.ids[r.Intn(len(g.ids))])
				}
				sort.Ints(ids)
				var uniq []int
				for j, id := range ids {
					if j == 0 || id != ids[j-1] {
						uniq = append(uniq, id)
					}
				}
				emitMsgBattery(r, g, uniq, emit)
			}
		}
	}
}

func emitMsgBattery(r *Rng, g *gmsg, ids []int, emit func(*Sx)) {
	mtiVal := []byte("0100")
	ops := []*Sx{op("mti", X(mtiVal))}
	for _, id := range ids {
		ops = append(ops, op("setval", I(id), genValue(r, g.nodes[id])))
	}
	ops = append(ops, op("pack"), op("get"), op("bitmap"))
	res := func() []string {
		defer func() { recover() }()
		return runMsgOps(g.term, ops)
	}()
	emit(L(A("msg"), g.term, L(ops...)))
	if res == nil {
		return
	}
	packRes := res[len(res)-3]
	if !strings.HasPrefix(packRes, "ok ") {
		return
	}
	packed := A(packRes[3:]).Hex()
	// unpack into a fresh message, observe, re-pack
	emit(L(A("msg"), g.term, L(op("unpack", X(packed)), op("get"), op("pack"))))
	// unpack into the populated message (prior state must not matter), then unset and re-pack
	ops2 := append(append([]*Sx{}, ops[:len(ops)-3]...), op("unpack", X(packed)), op("get"), op("pack"))
	if len(g.ids) > 0 {
		ops2 = append(ops2, op("unset", I(g.ids[r.Intn(len(g.ids))])), op("get"), op("pack"))
	}
	emit(L(A("msg"), g.term, L(ops2...)))
	// a fixed-length numeric element whose first digit is zero (the decoded integer is shorter than the field)
	for _, o := range ops {
		if o.Head() != "setval" {
			continue
		}
		n := g.nodes[o.List[1].Int()]
		if n == nil || n.comp || n.kind != "Numeric" || !n.fixed || (n.enc != "ASCII" && n.enc != "EBCDIC") || o.List[2].Head() != "N" {
			continue
		}
		digits := []byte(o.List[2].List[1].Atom)
		if n.enc == "EBCDIC" {
			for i := range digits {
				digits[i] = digits[i] - '0' + 0xf0
			}
		}
		if len(digits) == n.L && len(digits) > 1 {
			if idx := bytes.Index(packed, digits); idx >= 0 {
				z := append([]byte(nil), packed...)
				z[idx] = z[idx]&0xf0 | 0
				if n.enc == "ASCII" {
					z[idx] = '0'
				}
				emit(L(A("msg"), g.term, L(op("unpack", X(z)), op("get"), op("pack"))))
			}
		}
	}
	// mutants and truncations
	for k := 0; k < 4; k++ {
		emit(L(A("msg"), g.term, L(op("unpack", X(mutate(r, packed))), op("get"), op("pack"))))
	}
	if len(packed) > 0 {
		emit(L(A("msg"), g.term, L(op("unpack", X(packed[:r.Intn(len(packed))])), op("get"))))
	}
}
