package main

import (
	"fmt"
	"sort"
	"strings"
)

// Generator of coherent specs and in-domain values over the grammar of DESIGN.md section 2,
// producing the terms of the case language (the library objects are built from the same terms).

type gnode struct {
	term  *Sx
	comp  bool
	kind  string // String Numeric Binary Hex
	enc   string
	pref  string
	L     int
	padK  string // N L R
	padB  byte
	fixed bool
	mode  string // pos tag ber bmp
	subs  map[string]*gnode
	order []string // sort order of the tags
}

// restrictExportable limits the generator to the vocabulary of the JSON spec format (specs/builder.go)
var restrictExportable = false

func filterExportable(xs []string) []string {
	if !restrictExportable {
		return xs
	}
	var out []string
	for _, x := range xs {
		if strings.Contains(x, "LLLLL") || strings.HasPrefix(x, "EBCDIC1047") || x == "Hex" && false {
			continue
		}
		out = append(out, x)
	}
	return out
}

var textEncs = []string{"ASCII", "EBCDIC", "EBCDIC1047", "BCD", "LBCD", "Binary", "Hex"}
var byteEncs = []string{"Binary", "Hex", "EBCDIC", "ASCII"}

func allVarPrefixers() []string {
	var out []string
	for _, f := range prefFamilies {
		for _, w := range prefWidths[1:] {
			out = append(out, f+"."+w)
		}
	}
	return append(out, "BerTLV")
}

func prefCapacity(name string) int {
	if name == "BerTLV" {
		return 1 << 30
	}
	s := shapeOf(name)
	if s.fixed {
		return 1 << 30
	}
	c := s.capacity()
	if c > 1<<30 {
		c = 1 << 30
	}
	return c
}

func padTerm(k string, b byte) (*Sx, *Sx) { return A(k), X([]byte{b}) }

func (n *gnode) primTerm() *Sx {
	pk, pb := padTerm(n.padK, n.padB)
	return L(A("P"), A(n.kind), A(n.enc), A(n.pref), I(n.L), pk, pb, A("D"))
}

// genPrim draws a primitive field spec; forceVar: self-delimiting without relying on a fixed length
func genPrim(r *Rng, kinds []string) *gnode {
	if restrictExportable {
		kinds = []string{"String", "Numeric", "Binary"}
	}
	n := &gnode{kind: Pick(r, kinds)}
	if n.kind == "Binary" || n.kind == "Hex" {
		n.enc = Pick(r, filterExportable(byteEncs))
	} else {
		n.enc = Pick(r, filterExportable(textEncs))
	}
	if r.Chance(1, 4) {
		n.pref = Pick(r, filterExportable(prefFamilies)) + ".Fixed"
		n.fixed = true
	} else {
		n.pref = Pick(r, filterExportable(allVarPrefixers()))
	}
	cap_ := prefCapacity(n.pref)
	n.L = 1 + r.Intn(12)
	if r.Chance(1, 8) {
		n.L = Pick(r, []int{1, 2, 9, 10, 99, 100, 255, 256, 300, 999})
	}
	if n.L > cap_ {
		n.L = cap_
	}
	if n.pref == "BerTLV" && r.Chance(1, 4) {
		n.L = 0
	}
	// padding
	n.padK, n.padB = "N", 0
	digitsOnly := n.enc == "BCD" || n.enc == "LBCD"
	switch {
	case n.kind == "Numeric" && n.fixed:
		n.padK, n.padB = "L", '0'
	case r.Chance(1, 3):
		n.padK = Pick(r, []string{"L", "R"})
		if digitsOnly || n.kind == "Numeric" {
			n.padK, n.padB = "L", '0'
		} else {
			n.padB = Pick(r, []byte{' ', '0', 'F', 0x00, '*'})
		}
	}
	n.term = n.primTerm()
	return n
}

func (n *gnode) alphabet() []byte {
	switch {
	case n.kind == "Numeric" || n.enc == "BCD" || n.enc == "LBCD":
		return []byte("0123456789")
	case n.enc == "ASCII" || n.enc == "EBCDIC1047":
		a := make([]byte, 0, 128)
		for b := 0; b < 128; b++ {
			a = append(a, byte(b))
		}
		return a
	}
	a := make([]byte, 0, 256)
	for b := 0; b < 256; b++ {
		a = append(a, byte(b))
	}
	return a
}

// genPrimValueLen draws an in-domain value of (about) the requested length
func genPrimValueLen(r *Rng, n *gnode, vlen int) *Sx {
	maxLen := n.L
	if n.pref == "BerTLV" && n.L == 0 {
		maxLen = 300
	}
	if vlen > maxLen {
		vlen = maxLen
	}
	if n.fixed && n.padK == "N" {
		vlen = n.L
	}
	if n.kind == "Numeric" {
		if vlen > 18 {
			vlen = 18
		}
		if vlen < 1 {
			vlen = 1
		}
		d := r.From([]byte("0123456789"), vlen)
		if d[0] == '0' && vlen > 1 {
			d[0] = '1' + byte(r.Intn(9))
		}
		var z int
		fmt.Sscan(string(d), &z)
		return L(A("N"), I(z))
	}
	v := r.From(n.alphabet(), vlen)
	if n.padK == "L" && len(v) > 0 && v[0] == n.padB {
		v[0] = n.padB ^ 1
	}
	if n.padK == "R" && len(v) > 0 && v[len(v)-1] == n.padB {
		v[len(v)-1] = n.padB ^ 1
	}
	switch n.kind {
	case "Binary":
		return L(A("B"), X(v))
	case "Hex":
		return L(A("H"), X([]byte(strings.ToUpper(fmt.Sprintf("%x", v)))))
	}
	return L(A("S"), X(v))
}

func genPrimValue(r *Rng, n *gnode) *Sx {
	maxLen := n.L
	if maxLen == 0 || maxLen > 40 {
		maxLen = 40
	}
	choices := []int{0, 1, maxLen - 1, maxLen, r.Intn(maxLen + 1), r.Intn(maxLen + 1)}
	return genPrimValueLen(r, n, choices[r.Intn(len(choices))])
}

func berTag(r *Rng) string {
	switch r.Intn(4) {
	case 0:
		b := byte(r.Intn(256))
		if b&0x1f == 0x1f {
			b &^= 1
		}
		return fmt.Sprintf("%02X", b)
	case 1:
		return fmt.Sprintf("%02X%02X", byte(r.Intn(256))|0x1f, byte(r.Intn(128)))
	case 2:
		return fmt.Sprintf("%02X%02X%02X", byte(r.Intn(256))|0x1f, byte(r.Intn(128))|0x80, byte(r.Intn(128)))
	}
	return fmt.Sprintf("%02X%02X%02X%02X", byte(r.Intn(256))|0x1f, byte(r.Intn(128))|0x80, byte(r.Intn(128))|0x80, byte(r.Intn(128)))
}

var compVarPrefs = []string{"ASCII.LL", "ASCII.LLL", "ASCII.LLLL", "BCD.LLL", "BCD.LLLL", "Binary.L", "Binary.LL", "Binary.LLL", "Hex.LL", "EBCDIC.LLL",
	"EBCDIC1047.LLLL", "BerTLV", "ASCII.LLLLL", "Binary.LLLLL", "Hex.L", "BCD.LL"}

// genComp draws a composite spec; subfields are self-delimiting (variable prefix or fixed length)
func genComp(r *Rng, depth int) *gnode {
	n := &gnode{comp: true, subs: map[string]*gnode{}}
	n.mode = Pick(r, []string{"pos", "tag", "ber", "bmp"})
	if restrictExportable && n.mode == "ber" {
		n.mode = "tag"
	}
	k := 1 + r.Intn(5)
	sub := func() *gnode {
		if depth < 2 && r.Chance(1, 4) {
			return genComp(r, depth+1)
		}
		return genPrim(r, []string{"String", "Numeric", "Binary", "Hex"})
	}
	n.pref = Pick(r, filterExportable(compVarPrefs))
	n.L = prefCapacity(n.pref)
	if n.L > 9999 {
		n.L = 9999
	}
	if n.pref == "BerTLV" && r.Chance(1, 3) {
		n.L = 0
	}
	skip := r.Chance(1, 3) && !restrictExportable
	var modeTerm *Sx
	sortName := "ByInt"
	switch n.mode {
	case "pos":
		if r.Chance(1, 4) && !restrictExportable {
			sortName = "Strings"
			for i := 0; i < k; i++ {
				n.subs[string(rune('a'+i))] = sub()
			}
		} else {
			for i := 1; i <= k; i++ {
				n.subs[fmt.Sprint(i)] = sub()
			}
		}
		modeTerm = L(A("T"), I(0), A("nil"), A("N"), X([]byte{0}), A(sortName), A("0"), A("nil"))
	case "tag":
		w := 2 + r.Intn(2)
		tenc := Pick(r, []string{"ASCII", "EBCDIC", "BCD", "Binary", "HexToBytes"})
		if restrictExportable && tenc == "Binary" {
			tenc = "ASCII" // its tags sort with sort.Strings, which the JSON format cannot name
		}
		usePad := r.Bool() && tenc != "HexToBytes" && tenc != "Binary"
		padK, padB := "N", byte(0)
		if usePad {
			padK, padB = "L", '0'
		}
		tlen := w
		if tenc == "HexToBytes" {
			tlen = 1 + r.Intn(2)
			sortName = "ByHex"
		}
		if tenc == "Binary" {
			sortName = "Strings"
		}
		prefUnk := "nil"
		if skip {
			prefUnk = Pick(r, []string{"ASCII.LL", "Binary.L", "BerTLV", "ASCII.LLL", "BCD.LL"})
		}
		for len(n.subs) < k {
			var key string
			switch {
			case tenc == "HexToBytes":
				key = strings.ToUpper(fmt.Sprintf("%x", r.Bytes(tlen)))
			case tenc == "Binary":
				key = string(r.From([]byte("ABCDEFGHIJKLMNOPQRSTUVWXYZ"), w))
			case usePad:
				key = fmt.Sprint(1 + r.Intn(pow(10, w)-1))
			default:
				key = fmt.Sprintf("%0*d", w, r.Intn(pow(10, w)))
			}
			if _, ok := n.subs[key]; !ok {
				n.subs[key] = sub()
			}
		}
		modeTerm = L(A("T"), I(tlen), A(tenc), A(padK), X([]byte{padB}), A(sortName), B(skip), A(prefUnk))
	case "ber":
		sortName = "ByHex"
		for len(n.subs) < k {
			key := berTag(r)
			if _, ok := n.subs[key]; !ok {
				n.subs[key] = sub()
			}
		}
		modeTerm = L(A("T"), I(0), A("BerTag"), A("N"), X([]byte{0}), A(sortName), B(skip), A("nil"))
	case "bmp":
		Bn := 1 + r.Intn(4)
		for len(n.subs) < k {
			key := fmt.Sprint(1 + r.Intn(8*Bn))
			if _, ok := n.subs[key]; !ok {
				n.subs[key] = sub()
			}
		}
		modeTerm = L(A("B"), I(Bn), Pick(r, []*Sx{A("Binary"), A("Hex")}), A(Pick(r, filterExportable(prefFamilies))+".Fixed"))
	}
	for t := range n.subs {
		n.order = append(n.order, t)
	}
	// the generator's own notion of the order (reflayout.go), not the library's sort functions: the expected encodings
	// built from it must not follow a change of the library
	n.order = refSort(sortName, n.order)
	if n.mode == "bmp" {
		n.order = refSort("ByInt", n.order)
	}
	// term: subfields listed in a shuffled order (the spec is a map)
	keys := append([]string(nil), n.order...)
	for i := len(keys) - 1; i > 0; i-- {
		j := r.Intn(i + 1)
		keys[i], keys[j] = keys[j], keys[i]
	}
	var subTerms []*Sx
	for _, t := range keys {
		subTerms = append(subTerms, L(X([]byte(t)), n.subs[t].term))
	}
	n.term = L(A("C"), A(n.pref), I(n.L), modeTerm, L(subTerms...))
	return n
}

// genValue draws an in-domain value for a node
func genValue(r *Rng, n *gnode) *Sx {
	if !n.comp {
		return genPrimValue(r, n)
	}
	var present []string
	if n.mode == "pos" {
		present = n.order[:1+r.Intn(len(n.order))]
	} else {
		for _, t := range n.order {
			if !r.Chance(1, 3) {
				present = append(present, t)
			}
		}
	}
	var parts []*Sx
	for _, t := range present {
		parts = append(parts, L(X([]byte(t)), genValue(r, n.subs[t])))
	}
	return L(A("C"), L(parts...))
}

type gmsg struct {
	term   *Sx
	B      int
	auto   bool
	nodes  map[int]*gnode
	ids    []int
	mtiLen int
}

// set by the specjson generator: the export format prints Spec.Length as written (0 is left out), which the model's
// bitmap specification - it carries the block size - does not distinguish from 8
var explicitBitmapLength bool

func genMsg(r *Rng, deficient bool) *gmsg {
	g := &gmsg{B: 1 + r.Intn(16), auto: r.Bool(), nodes: map[int]*gnode{}}
	if r.Chance(1, 3) {
		g.B = 8
	}
	bmEnc := Pick(r, []string{"Binary", "Hex"})
	bmPref := Pick(r, filterExportable(prefFamilies)) + ".Fixed"
	mtiEnc := Pick(r, filterExportable([]string{"ASCII", "EBCDIC", "BCD", "EBCDIC1047", "LBCD"}))
	mtiKind := Pick(r, []string{"String", "Numeric"})
	mtiPad := "N"
	if mtiKind == "Numeric" {
		mtiPad = "L"
	}
	mti := L(A("P"), A(mtiKind), A(mtiEnc), A(Pick(r, filterExportable(prefFamilies))+".Fixed"), I(4), A(mtiPad), X([]byte{'0'}), A("D"))
	maxID := 8 * g.B
	if g.auto {
		maxID = 8 * g.B * 3
	}
	if deficient {
		maxID += 8 * g.B
	}
	var cand []int
	for id := 2; id <= maxID; id++ {
		if g.auto && id%(8*g.B) == 1 && !deficient {
			continue
		}
		cand = append(cand, id)
	}
	// prefer the boundary field numbers of the property when they are representable
	for _, b := range []int{2, 64, 66, 128, 130, 192} {
		if b <= maxID && r.Chance(1, 3) && !(g.auto && b%(8*g.B) == 1) {
			cand = append([]int{b}, cand...)
		}
	}
	// a bitmap-deficient spec is only interesting when an element the bitmap cannot announce gets populated: put such
	// numbers first (fixed bitmap: just beyond its last bit; expanding bitmap: the first bits of later blocks)
	if deficient {
		if g.auto {
			cand = append([]int{8*g.B*(1+r.Intn(3)) + 1}, cand...)
		} else {
			cand = append([]int{8*g.B + 1 + r.Intn(8*g.B), 8*g.B + 1}, cand...)
		}
	}
	nf := 1 + r.Intn(6)
	seen := map[int]bool{}
	for i := 0; len(g.ids) < nf && i < 50; i++ {
		id := cand[r.Intn(len(cand))]
		if i < 6 && i < len(cand) {
			id = cand[i]
			if r.Bool() {
				id = cand[r.Intn(len(cand))]
			}
		}
		if seen[id] {
			continue
		}
		seen[id] = true
		var n *gnode
		if r.Chance(2, 5) {
			n = genComp(r, 0)
		} else {
			n = genPrim(r, []string{"String", "Numeric", "Binary", "Hex"})
		}
		g.nodes[id] = n
		g.ids = append(g.ids, id)
	}
	sort.Ints(g.ids)
	var fts []*Sx
	for _, id := range g.ids {
		fts = append(fts, L(I(id), g.nodes[id].term))
	}
	// a block of 8 bytes is also written as Length 0 (the default of field.NewBitmap)
	termB := g.B
	if g.B == 8 && !explicitBitmapLength && r.Bool() {
		termB = 0
	}
	g.term = L(A("M"), mti, L(I(termB), B(g.auto), A(bmEnc), A(bmPref)), L(fts...))
	return g
}
