package main

import (
	"encoding/json"
	"fmt"
	"sort"
	"strings"

	"github.com/moov-io/iso8583"
	"github.com/moov-io/iso8583/field"
)

func runFldOps(spec *Sx, ops []*Sx) []string {
	out, _ := runFldOpsOn(spec, buildField(spec), ops)
	return out
}

// runFldOpsOn performs the operations of a field case on the object given and returns the object as it is at the end
// (a reset replaces it): the oracles look at it afterwards
func runFldOpsOn(spec *Sx, f field.Field, ops []*Sx) ([]string, field.Field) {
	var out []string
	for _, op := range ops {
		switch op.Head() {
		case "set":
			applyVal(f, op.List[1])
			out = append(out, "ok")
		case "unpack":
			n, err := f.Unpack(op.List[1].Hex())
			if err != nil {
				out = append(out, showErrPath(err))
			} else {
				out = append(out, fmt.Sprintf("ok %d", n))
			}
		case "setbytes":
			if err := f.SetBytes(op.List[1].Hex()); err != nil {
				out = append(out, showErrPath(err))
			} else {
				out = append(out, "ok ")
			}
		case "pack":
			p, err := f.Pack()
			if err != nil {
				out = append(out, "err")
			} else {
				out = append(out, "ok "+xh(p))
			}
		case "get":
			out = append(out, showVal(f))
		case "reset":
			f = buildField(spec)
			out = append(out, "ok")
		case "note":
			out = append(out, "ok")
		case "json":
			j, err := json.Marshal(f)
			if err != nil {
				out = append(out, "err")
			} else {
				out = append(out, xh(j))
			}
		case "fromjson":
			if err := json.Unmarshal(renderJdoc(op.List[1]), f); err != nil {
				out = append(out, "err")
			} else {
				out = append(out, "ok")
			}
		case "unsetp":
			if c, ok := f.(*field.Composite); ok {
				if err := c.UnsetSubfields(string(op.List[1].Hex())); err != nil {
					out = append(out, "err")
				} else {
					out = append(out, "ok")
				}
			} else {
				out = append(out, "err")
			}
		}
	}
	return out, f
}

// renderJdoc prints a parsed-document term as JSON text: (js x..) (jn z) (jo ((xkey doc)...))
func renderJdoc(d *Sx) []byte {
	switch d.Head() {
	case "js":
		b, _ := json.Marshal(string(d.List[1].Hex()))
		return b
	case "jn":
		return []byte(d.List[1].Atom)
	case "jo":
		var parts []string
		for _, kv := range d.List[1].List {
			k, _ := json.Marshal(string(kv.List[0].Hex()))
			parts = append(parts, string(k)+":"+string(renderJdoc(kv.List[1])))
		}
		return []byte("{" + strings.Join(parts, ",") + "}")
	}
	return []byte("null")
}

func showPresent(m *iso8583.Message) string {
	fields := m.GetFields()
	var ids []int
	for id := range fields {
		ids = append(ids, id)
	}
	sort.Ints(ids)
	var parts []string
	for _, id := range ids {
		if id == 1 {
			parts = append(parts, "(1)")
		} else {
			parts = append(parts, fmt.Sprintf("(%d %s)", id, showVal(fields[id])))
		}
	}
	return "(" + strings.Join(parts, " ") + ")"
}

func runMsgOps(spec *Sx, ops []*Sx) []string {
	m := iso8583.NewMessage(buildMessageSpec(spec))
	var out []string
	for _, op := range ops {
		switch op.Head() {
		case "mti":
			m.MTI(string(op.List[1].Hex()))
			out = append(out, "ok")
		case "field":
			if err := m.BinaryField(op.List[1].Int(), op.List[2].Hex()); err != nil {
				out = append(out, showErrPath(err))
			} else {
				out = append(out, "ok ")
			}
		case "setval":
			id := op.List[1].Int()
			f := m.GetField(id)
			v := op.List[2]
			if _, isComp := f.(*field.Composite); isComp {
				if err := marshalOne(m, fmt.Sprint(id), leafFieldValue(A("x"))); err != nil {
					panic(err)
				}
				applyVal(m.GetField(id), v)
			} else {
				if err := marshalOne(m, fmt.Sprint(id), leafFieldValue(v)); err != nil {
					panic(err)
				}
			}
			out = append(out, "ok")
		case "unpack":
			if err := m.Unpack(op.List[1].Hex()); err != nil {
				out = append(out, showErrPath(err))
			} else {
				out = append(out, "ok ")
			}
		case "unset":
			m.UnsetField(op.List[1].Int())
			out = append(out, "ok")
		case "pack":
			p, err := m.Pack()
			if err != nil {
				out = append(out, "err")
			} else {
				out = append(out, "ok "+xh(p))
			}
		case "get":
			out = append(out, showPresent(m))
		case "bitmap":
			b, _ := m.Bitmap().Bytes()
			out = append(out, xh(b))
		case "note":
			out = append(out, "ok")
		case "json":
			j, err := m.MarshalJSON()
			if err != nil {
				out = append(out, "err")
			} else {
				out = append(out, "ok "+xh(j))
			}
		case "fromjson":
			if err := m.UnmarshalJSON(renderJdoc(op.List[1])); err != nil {
				out = append(out, "err")
			} else {
				out = append(out, "ok")
			}
		case "unsetp":
			if err := m.UnsetFields(string(op.List[1].Hex())); err != nil {
				out = append(out, "err")
			} else {
				out = append(out, "ok")
			}
		case "clone", "cloneorig":
			c, err := m.Clone()
			if err != nil {
				out = append(out, "err")
			} else {
				out = append(out, "ok "+showPresent(c))
				if op.Head() == "clone" {
					m = c
				}
			}
		}
	}
	return out
}

func init() {
	executors["fld"] = func(a []*Sx) string { return strings.Join(runFldOps(a[0], a[1].List), " | ") }
	executors["msg"] = func(a []*Sx) string { return strings.Join(runMsgOps(a[0], a[1].List), " | ") }
}
