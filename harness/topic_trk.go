package main

// Track1 / Track2 / Track3 field objects on their own, and the track filters of Describe.
// case: (trk <1|2|3> <P-term> (op...)); ops: (setc fixed fc pan sep name exp svc dd) (pack) (unpack x) (setbytes x) (get) (str) (filter) (reset)

import (
	"bytes"
	"fmt"
	"strings"
	"time"

	"github.com/moov-io/iso8583"
	"github.com/moov-io/iso8583/field"
)

func trackField(k int, p *Sx) field.Field {
	sp := buildField(p).Spec()
	switch k {
	case 1:
		return field.NewTrack1(sp)
	case 2:
		return field.NewTrack2(sp)
	}
	return field.NewTrack3(sp)
}

type trackComps struct {
	fixed                       bool
	fc, pan, sep, name, svc, dd string
	exp                         string // "" = nil
}

func compsOfOp(o *Sx) trackComps {
	a := o.Args()
	c := trackComps{fixed: a[0].Bool(), fc: string(a[1].Hex()), pan: string(a[2].Hex()), sep: string(a[3].Hex()), name: string(a[4].Hex()), svc: string(a[6].Hex()), dd: string(a[7].Hex())}
	if a[5].Atom != "-" {
		c.exp = string(a[5].Hex())
	}
	return c
}

func (c trackComps) op() *Sx {
	e := A("-")
	if c.exp != "" {
		e = X([]byte(c.exp))
	}
	fx := "0"
	if c.fixed {
		fx = "1"
	}
	return op("setc", A(fx), X([]byte(c.fc)), X([]byte(c.pan)), X([]byte(c.sep)), X([]byte(c.name)), e, X([]byte(c.svc)), X([]byte(c.dd)))
}

func setComps(f field.Field, c trackComps) {
	var exp *time.Time
	if c.exp != "" {
		if t, err := time.Parse("0601", c.exp); err == nil {
			exp = &t
		}
	}
	switch x := f.(type) {
	case *field.Track1:
		x.Marshal(&field.Track1{FixedLength: c.fixed, FormatCode: c.fc, PrimaryAccountNumber: c.pan, Name: c.name, ExpirationDate: exp, ServiceCode: c.svc, DiscretionaryData: c.dd})
	case *field.Track2:
		x.Marshal(&field.Track2{PrimaryAccountNumber: c.pan, Separator: c.sep, ExpirationDate: exp, ServiceCode: c.svc, DiscretionaryData: c.dd})
	case *field.Track3:
		x.Marshal(&field.Track3{FormatCode: c.fc, PrimaryAccountNumber: c.pan, DiscretionaryData: c.dd})
	}
}

func getComps(f field.Field) trackComps {
	var c trackComps
	fmtExp := func(t *time.Time) string {
		if t == nil {
			return ""
		}
		return t.Format("0601")
	}
	switch x := f.(type) {
	case *field.Track1:
		var d field.Track1
		x.Unmarshal(&d)
		c = trackComps{fixed: x.FixedLength, fc: d.FormatCode, pan: d.PrimaryAccountNumber, name: d.Name, exp: fmtExp(d.ExpirationDate), svc: d.ServiceCode, dd: d.DiscretionaryData}
	case *field.Track2:
		var d field.Track2
		x.Unmarshal(&d)
		c = trackComps{pan: d.PrimaryAccountNumber, sep: d.Separator, exp: fmtExp(d.ExpirationDate), svc: d.ServiceCode, dd: d.DiscretionaryData}
	case *field.Track3:
		var d field.Track3
		x.Unmarshal(&d)
		c = trackComps{fc: d.FormatCode, pan: d.PrimaryAccountNumber, dd: d.DiscretionaryData}
	}
	return c
}

func showComps(c trackComps) string {
	e := "-"
	if c.exp != "" {
		e = xh([]byte(c.exp))
	}
	fx := "0"
	if c.fixed {
		fx = "1"
	}
	return fmt.Sprintf("(t %s %s %s %s %s %s %s %s)", fx, xh([]byte(c.fc)), xh([]byte(c.pan)), xh([]byte(c.sep)), xh([]byte(c.name)), e, xh([]byte(c.svc)), xh([]byte(c.dd)))
}

func trackFilter(k int) iso8583.FilterFunc {
	switch k {
	case 1:
		return iso8583.Track1Filter
	case 2:
		return iso8583.Track2Filter
	}
	return iso8583.Track3Filter
}

func runTrkOp(k int, p *Sx, f *field.Field, o *Sx) string {
	switch o.Head() {
	case "setc":
		setComps(*f, compsOfOp(o))
		return "ok"
	case "unpack":
		n, err := (*f).Unpack(append([]byte(nil), o.List[1].Hex()...))
		if err != nil {
			return "err"
		}
		return fmt.Sprintf("ok %d", n)
	case "setbytes":
		if err := (*f).SetBytes(append([]byte(nil), o.List[1].Hex()...)); err != nil {
			return "err"
		}
		return "ok "
	case "pack":
		b, err := (*f).Pack()
		if err != nil {
			return "err"
		}
		return "ok " + xh(b)
	case "get":
		return showComps(getComps(*f))
	case "str":
		s, _ := (*f).String()
		return xh([]byte(s))
	case "filter":
		s, _ := (*f).String()
		return xh([]byte(trackFilter(k)(s, *f)))
	case "reset":
		*f = trackField(k, p)
		return "ok"
	case "sfilter":
		// the filter on a String field of the same spec that carries the text (as fields 35 / 36 / 45 of the shipped specs do)
		return xh([]byte(stringTrackFilter(k, p, o.List[1].Hex())))
	}
	return "bad"
}

func stringTrackFilter(k int, p *Sx, v []byte) string {
	sf := field.NewString(buildField(p).Spec())
	sf.SetBytes(v)
	return trackFilter(k)(string(v), sf)
}

func runTrk(a []*Sx) []string {
	k := a[0].Int()
	f := trackField(k, a[1])
	var out []string
	for _, o := range a[2].List {
		out = append(out, runTrkOp(k, a[1], &f, o))
	}
	return out
}

// the value domain of DESIGN.md section 2.2 for tracks
func trackInDomain(k int, c trackComps) bool {
	digits := func(s string, lo, hi int) bool {
		if len(s) < lo || len(s) > hi {
			return false
		}
		for _, ch := range s {
			if ch < '0' || ch > '9' {
				return false
			}
		}
		return true
	}
	clean := func(s string) bool { return s != "" && strings.TrimSpace(s) == s && !strings.Contains(s, "?") }
	validExp := func(e string) bool {
		_, err := time.Parse("0601", e)
		return len(e) == 4 && err == nil
	}
	if !digits(c.pan, 1, 19) || !clean(c.dd) {
		return false
	}
	switch k {
	case 1:
		if c.fixed || len(c.fc) != 1 || c.fc[0] < 'A' || c.fc[0] > 'Z' || len(c.name) < 2 || len(c.name) > 26 || strings.Contains(c.name, "^") || strings.TrimSpace(c.name) != c.name {
			return false
		}
		if c.exp != "" && !validExp(c.exp) || c.svc != "" && !digits(c.svc, 3, 3) || c.dd == "^" {
			return false
		}
		// an absent expiry / service code is rendered as ^: the discretionary data must not be taken for them
		return true
	case 2:
		return (c.sep == "=" || c.sep == "D") && validExp(c.exp) && digits(c.svc, 3, 3)
	}
	return digits(c.fc, 2, 2) && c.dd != "="
}

func genTrackComps(r *Rng, k int, wellFormed bool) trackComps {
	dig := func(n int) string { return string(r.From([]byte("0123456789"), n)) }
	c := trackComps{pan: dig(Pick(r, []int{12, 13, 15, 16, 16, 18, 19, 19, 1, 8}))}
	alnum := []byte("ABCDEFGHJKMNPQRSTUVWXYZ0123456789 /.")
	c.dd = strings.TrimSpace(string(r.From(alnum, 1+r.Intn(18))))
	if c.dd == "" {
		c.dd = "1"
	}
	c.exp = fmt.Sprintf("%02d%02d", r.Intn(100), 1+r.Intn(12))
	c.svc = dig(3)
	switch k {
	case 1:
		c.fc = string(r.From([]byte("BABCXZ"), 1))
		c.name = strings.TrimSpace(string(r.From([]byte("ABCDEFGHIJKLMNOPQRSTUVWXYZ /."), 2+r.Intn(25))))
		if len(c.name) < 2 {
			c.name = "DOE/J"
		}
		if r.Chance(1, 5) {
			c.exp = ""
		}
		if r.Chance(1, 5) {
			c.svc = ""
		}
	case 2:
		c.sep = Pick(r, []string{"=", "=", "D"})
	case 3:
		c.fc = dig(2)
		c.exp, c.svc = "", ""
	}
	if !wellFormed {
		switch r.Intn(9) {
		case 0:
			c.pan = dig(20 + r.Intn(3))
		case 1:
			c.dd = c.dd + "?"
		case 2:
			c.exp = ""
		case 3:
			c.dd = " " + c.dd + " "
		case 4:
			c.sep = Pick(r, []string{"", "X", "=="})
		case 5:
			c.fixed = true
		case 6:
			c.dd = Pick(r, []string{"^", "=", "", " "})
		case 7:
			c.name = Pick(r, []string{"A", "A ", "", strings.Repeat("N", 27), "A^B"})
		case 8:
			c.exp, c.svc = "", ""
		}
	}
	// components the kind does not have
	switch k {
	case 2:
		c.fixed, c.fc, c.name = false, "", ""
	case 3:
		c.fixed, c.sep, c.name, c.exp, c.svc = false, "", "", "", ""
	case 1:
		c.sep = ""
	}
	return c
}

// is the track text this wire input decodes to plain ASCII? (the model of the track parsers counts bytes where the
// library's regular expressions count runes and trims ASCII white space only: non-ASCII text is outside the modelled domain)
func trackWireASCII(k int, p *Sx, data []byte) bool {
	sp := trackField(k, p).Spec()
	n, read, err := sp.Pref.DecodeLength(sp.Length, data)
	if err != nil || read > len(data) || n < 0 {
		return true // rejected before any track text exists
	}
	raw, _, err := sp.Enc.Decode(data[read:], n)
	if err != nil {
		return true
	}
	for _, b := range raw {
		if b >= 0x80 {
			return false
		}
	}
	return true
}

func asciiOnly(b []byte) bool {
	for _, c := range b {
		if c >= 0x80 {
			return false
		}
	}
	return true
}

func init() {
	executors["trk"] = func(a []*Sx) string { return strings.Join(runTrk(a), " | ") }

	generators["trk"] = func(r *Rng, tier string, emit0 func(*Sx)) {
		// only cases whose wire inputs decode to ASCII track text are in the modelled domain
		emit := func(c *Sx) {
			k, p := c.List[1].Int(), c.List[2]
			for _, o := range c.List[3].List {
				if o.Head() == "unpack" && !trackWireASCII(k, p, o.List[1].Hex()) {
					return
				}
				if o.Head() == "setbytes" && !asciiOnly(o.List[1].Hex()) {
					return
				}
				if o.Head() == "sfilter" && !asciiOnly(o.List[1].Hex()) {
					return
				}
			}
			emit0(c)
		}
		n := 400
		if tier == "thorough" {
			n = 8000
		}
		encs := []string{"ASCII", "ASCII", "EBCDIC", "EBCDIC1047", "Binary", "BCD"}
		for i := 0; i < n; i++ {
			for k := 1; k <= 3; k++ {
				fam := Pick(r, prefFamilies)
				pref := fam + "." + Pick(r, []string{"LL", "LLL", "LL", "L"})
				maxLen := Pick(r, []int{37, 40, 76, 79, 104, 107, 20, 30})
				if c := prefCapacity(pref); maxLen > c {
					maxLen = c
				}
				pad, padB, packer := "N", byte(0), "D"
				if k == 2 && r.Chance(1, 4) {
					packer = "T2"
					pad, padB = Pick(r, []string{"L", "R"}), Pick(r, []byte{'0', 'F'})
				}
				p := L(A("P"), A("String"), A(Pick(r, encs)), A(pref), I(maxLen), A(pad), X([]byte{padB}), A(packer))
				c := genTrackComps(r, k, !r.Chance(1, 4))
				c2 := genTrackComps(r, k, true)
				f := trackField(k, p)
				setComps(f, c)
				packed, perr := f.Pack()
				f2 := trackField(k, p)
				setComps(f2, c2)
				packed2, perr2 := f2.Pack()
				ro := []*Sx{op("get"), op("pack"), op("get"), op("str"), op("get"), op("filter"), op("get"), op("pack")}
				emit(L(A("trk"), I(k), p, L(append([]*Sx{c.op()}, ro...)...)))
				if perr == nil {
					trail := r.Bytes(r.Intn(3))
					emit(L(A("trk"), I(k), p, L(op("unpack", X(append(append([]byte(nil), packed...), trail...))), op("get"), op("pack"), op("filter"))))
					emit(L(A("trk"), I(k), p, L(op("unpack", X(mutate(r, packed))), op("get"), op("pack"))))
					if perr2 == nil {
						// the same object used twice, also with an empty track in between
						empty, _ := trackField(k, p).Spec().Pref.EncodeLength(maxLen, 0)
						emit(L(A("trk"), I(k), p, L(op("unpack", X(packed)), op("get"), op("unpack", X(packed2)), op("get"), op("pack"))))
						emit(L(A("trk"), I(k), p, L(c.op(), op("unpack", X(packed2)), op("get"), op("pack"))))
						if empty != nil {
							emit(L(A("trk"), I(k), p, L(op("unpack", X(packed)), op("get"), op("unpack", X(empty)), op("get"), op("pack"))))
						}
					}
				}
				// a component that is blank on the wire is not assigned by the parser: unpacked into a used object it must read
				// as absent, not as what the object held before
				{
					c4 := genTrackComps(r, k, true)
					c4.dd = strings.Repeat(" ", 1+r.Intn(3))
					f4 := trackField(k, p)
					setComps(f4, c4)
					if packed4, err := f4.Pack(); err == nil {
						emit(L(A("trk"), I(k), p, L(c.op(), op("unpack", X(packed4)), op("get"), op("pack"), op("str"))))
						emit(L(A("trk"), I(k), p, L(op("unpack", X(packed4)), op("get"), op("pack"))))
					}
				}
				if packer == "T2" {
					// discretionary data made of the pad character only: the field's own unpadding eats it, the packed
					// value no longer parses as a track, and the Describe filter has nothing to take apart (F31)
					c3 := genTrackComps(r, k, true)
					c3.dd = strings.Repeat(string(padB), 1+r.Intn(3))
					emit(L(A("trk"), I(k), p, L(c3.op(), op("get"), op("filter"), op("str"), op("pack"))))
				}
				// the declared length at its boundary: tracks of exactly the maximum, one more and one less (C08)
				for _, target := range []int{maxLen - 1, maxLen, maxLen + 1, maxLen + 2} {
					cb := genTrackComps(r, k, true)
					fb := trackField(k, p)
					setComps(fb, cb)
					sb, _ := fb.String()
					if d := target - len(sb); d > 0 {
						cb.dd += string(r.From([]byte("123456789"), d))
					} else if d < 0 && len(cb.dd) > -d {
						cb.dd = cb.dd[:len(cb.dd)+d]
					}
					emit(L(A("trk"), I(k), p, L(cb.op(), op("pack"), op("str"))))
					// the same text in a String field: beyond the maximum the field cannot be packed and the filter has no
					// parsed track to work with
					fb2 := trackField(k, p)
					setComps(fb2, cb)
					if sb2, err := fb2.String(); err == nil && cb.pan != "" {
						emit(L(A("trk"), I(k), p, L(op("sfilter", X([]byte(sb2)), X([]byte(cb.pan))))))
					}
				}
				s, _ := f.String()
				// String fields carrying track data: the rendering of a track, a mutated one, and a bare PAN
				if c.pan != "" {
					emit(L(A("trk"), I(k), p, L(op("sfilter", X([]byte(s)), X([]byte(c.pan))))))
					emit(L(A("trk"), I(k), p, L(op("sfilter", X(mutate(r, []byte(s))), X([]byte(c.pan))))))
					emit(L(A("trk"), I(k), p, L(op("sfilter", X([]byte(c.pan)), X([]byte(c.pan))))))
				}
				emit(L(A("trk"), I(k), p, L(op("setbytes", X([]byte(s))), op("get"), op("str"))))
				emit(L(A("trk"), I(k), p, L(c2.op(), op("setbytes", X(mutate(r, []byte(s)))), op("get"), op("str"))))
				// an expiry date with an impossible month: the parse stops half way
				if i := strings.Index(s, c.exp); c.exp != "" && i >= 0 {
					bad := s[:i+2] + Pick(r, []string{"00", "13", "20", "99"}) + s[i+4:]
					emit(L(A("trk"), I(k), p, L(c2.op(), op("setbytes", X([]byte(bad))), op("get"), op("str"))))
				}
			}
		}
	}

	firstComps := func(ops []*Sx) *trackComps {
		for _, o := range ops {
			if o.Head() == "setc" {
				c := compsOfOp(o)
				return &c
			}
		}
		return nil
	}

	// C08: a track field packs only what its declared length admits: the rendered track (before any padding the packer
	// adds) is at most the maximum of a variable-length field and exactly the length of a fixed one
	regCheck("C08", "trk", func(a []*Sx) (bool, []Finding) {
		k := a[0].Int()
		c := firstComps(a[2].List)
		if c == nil || a[2].List[0].Head() != "setc" {
			return false, nil
		}
		f := trackField(k, a[1])
		setComps(f, *c)
		s, serr := f.String()
		if serr != nil {
			return false, nil
		}
		_, err := f.Pack()
		sa := a[1].Args()
		pref, L, padK := sa[2].Atom, sa[3].Int(), sa[4].Atom
		n := len(s)
		if padK != "N" && sa[6].Atom != "T2" && n < L {
			n = L
		}
		if err == nil && lengthMustFail(pref, L, n) {
			return true, []Finding{{"c08-track-pack-accepts:" + sa[6].Atom, fmt.Sprintf("Pack accepts a track of %d characters for a field declared %s with length %d", n, pref, L)}}
		}
		return true, nil
	})

	// C01: Pack then Unpack reproduces an in-domain track, consumes exactly its bytes, re-packs identically
	regCheck("C01", "trk", func(a []*Sx) (bool, []Finding) {
		k := a[0].Int()
		c := firstComps(a[2].List)
		if c == nil || a[2].List[0].Head() != "setc" || !trackInDomain(k, *c) {
			return false, nil
		}
		if a[1].Args()[6].Atom == "T2" {
			// with the track2 packer the rendered track must not begin / end with the pad character
			return false, nil
		}
		f := trackField(k, a[1])
		setComps(f, *c)
		packed, err := f.Pack()
		if err != nil {
			return false, nil
		}
		g := trackField(k, a[1])
		n, err := g.Unpack(append(append([]byte(nil), packed...), 0x31, 0x32))
		if err != nil || n != len(packed) {
			return true, []Finding{{"c01-track-unpack", fmt.Sprintf("the packed track is rejected or not consumed exactly (read %d of %d, %v)", n, len(packed), safeErr(err))}}
		}
		if showComps(getComps(g)) != showComps(*c) {
			return true, []Finding{{"c01-track-value", fmt.Sprintf("unpacked components %s differ from the packed ones %s", showComps(getComps(g)), showComps(*c))}}
		}
		if re, err := g.Pack(); err != nil || !bytes.Equal(re, packed) {
			return true, []Finding{{"c01-track-repack", "packing the unpacked track does not return the identical bytes"}}
		}
		return true, nil
	})

	// C10: what a track field shows after a successful Unpack does not depend on what it held before
	regCheck("C10", "trk", func(a []*Sx) (bool, []Finding) {
		k := a[0].Int()
		ops := a[2].List
		last := -1
		for i, o := range ops {
			if o.Head() == "unpack" {
				last = i
			}
		}
		if last <= 0 {
			return false, nil
		}
		f := trackField(k, a[1])
		for _, o := range ops[:last] {
			runTrkOp(k, a[1], &f, o)
		}
		if runTrkOp(k, a[1], &f, ops[last]) == "err" {
			return false, nil
		}
		g := trackField(k, a[1])
		runTrkOp(k, a[1], &g, ops[last])
		// Track1.FixedLength is a rendering option the caller sets on the object (the suite sets it before SetBytes and
		// expects it to survive); it is not carried by the wire and not part of what Unpack determines
		cf, cg := getComps(f), getComps(g)
		cf.fixed, cg.fixed = false, false
		if showComps(cf) != showComps(cg) {
			return true, []Finding{{"c10-track-state", fmt.Sprintf("after Unpack a used track field shows %s, a fresh one %s", showComps(cf), showComps(cg))}}
		}
		return true, nil
	})

	// C15: Pack, String and the Describe filter do not change what the field holds, and repeat identically
	regCheck("C15", "trk", func(a []*Sx) (bool, []Finding) {
		k := a[0].Int()
		c := firstComps(a[2].List)
		if c == nil {
			return false, nil
		}
		f := trackField(k, a[1])
		setComps(f, *c)
		before := showComps(getComps(f))
		for _, name := range []string{"pack", "str", "filter", "pack", "str", "filter"} {
			r1 := runTrkOp(k, a[1], &f, op(name))
			if after := showComps(getComps(f)); after != before {
				return true, []Finding{{"c15-track-mutated", fmt.Sprintf("%s changed the components of the track field from %s to %s", name, before, after)}}
			}
			if r2 := runTrkOp(k, a[1], &f, op(name)); r1 != r2 {
				return true, []Finding{{"c15-track-unstable", fmt.Sprintf("%s gave two different results on the same field", name)}}
			}
		}
		return true, nil
	})

	// C18: the Describe filter never shows the full PAN of a well-formed track
	regCheck("C18", "trk", func(a []*Sx) (bool, []Finding) {
		k := a[0].Int()
		if o := a[2].List[0]; o.Head() == "sfilter" {
			v, pan := o.List[1].Hex(), string(o.List[2].Hex())
			if len(pan) < 12 || !asciiOnly(v) || !strings.Contains(string(v), pan) {
				return false, nil
			}
			out := stringTrackFilter(k, a[1], v)
			if strings.Contains(out, pan) {
				return true, []Finding{{"c18-string-track-pan", fmt.Sprintf("the track %d filter on a String field printed the full PAN: %q", k, clip(out))}}
			}
			return true, nil
		}
		c := firstComps(a[2].List)
		if c == nil || !trackInDomain(k, *c) || len(c.pan) < 12 {
			return false, nil
		}
		f := trackField(k, a[1])
		setComps(f, *c)
		s, _ := f.String()
		out := trackFilter(k)(s, f)
		if strings.Contains(out, c.pan) {
			return true, []Finding{{"c18-track-pan", fmt.Sprintf("the track %d filter printed the full PAN: %q", k, clip(out))}}
		}
		return true, nil
	})
}
