package main

// C14: a write that fails part way leaves nothing behind in what is not populated. Message.Marshal of a struct whose
// value for a composite element fails at its second subfield (after the first was written), then a successful Marshal
// that writes only the second subfield: the first must not be there. The same one level down, with the element already
// populated, for the error path of Composite.Marshal. Struct types are built by reflection; the order of struct fields -
// unlike the key order of a JSON object - is fixed, so the failing history is deterministic.

import (
	"fmt"
	"reflect"
	"sort"

	"github.com/moov-io/iso8583"
	"github.com/moov-io/iso8583/field"
)

// a value Marshal accepts for a primitive (sub)field of this kind
func validValueFor(f field.Field) (reflect.Value, bool) {
	switch f.(type) {
	case *field.String:
		return reflect.ValueOf(field.NewStringValue("Q7")), true
	case *field.Numeric:
		return reflect.ValueOf(field.NewNumericValue(7)), true
	case *field.Binary:
		return reflect.ValueOf(field.NewBinaryValue([]byte{0x5a})), true
	case *field.Hex:
		return reflect.ValueOf(field.NewHexValue("5A")), true
	}
	return reflect.Value{}, false
}

// a JSON value UnmarshalJSON accepts for a primitive (sub)field of this kind
func validJSONFor(f field.Field) (string, bool) {
	switch f.(type) {
	case *field.String:
		return `"Q7"`, true
	case *field.Numeric:
		return `7`, true
	case *field.Binary, *field.Hex:
		return `"5A"`, true
	}
	return "", false
}

func structPtr(fields []reflect.StructField, vals []reflect.Value) reflect.Value {
	t := reflect.StructOf(fields)
	p := reflect.New(t)
	for i, v := range vals {
		p.Elem().Field(i).Set(v)
	}
	return p
}

func tagged(name string, t reflect.Type, key string) reflect.StructField {
	return reflect.StructField{Name: name, Type: t, Tag: reflect.StructTag(fmt.Sprintf(`index:"%s"`, key))}
}

// two primitive subfields of a composite, in a fixed order
func twoPrims(c *field.Composite) (string, string, bool) {
	var tags []string
	for t, sf := range c.Spec().Subfields {
		if _, ok := validValueFor(sf); ok {
			tags = append(tags, t)
		}
	}
	sort.Strings(tags)
	if len(tags) < 2 {
		return "", "", false
	}
	return tags[0], tags[1], true
}

func failedWriteFindings(ms *iso8583.MessageSpec) (fs []Finding) {
	defer func() {
		if r := recover(); r != nil {
			fs = nil // reflection over an unusual spec: not this check's business
		}
	}()
	var ids []int
	for id := range ms.Fields {
		if id >= 2 {
			ids = append(ids, id)
		}
	}
	sort.Ints(ids)
	for _, id := range ids {
		c, ok := ms.Fields[id].(*field.Composite)
		if !ok {
			continue
		}
		key := fmt.Sprint(id)
		// (1) the element is not populated; the write fails at its second subfield
		if t1, t2, ok := twoPrims(c); ok {
			v1, _ := validValueFor(c.Spec().Subfields[t1])
			v2, _ := validValueFor(c.Spec().Subfields[t2])
			bad := structPtr([]reflect.StructField{tagged("A", v1.Type(), t1), tagged("B", reflect.TypeOf(1.5), t2)}, []reflect.Value{v1, reflect.ValueOf(1.5)})
			good := structPtr([]reflect.StructField{tagged("B", v2.Type(), t2)}, []reflect.Value{v2})
			m := iso8583.NewMessage(ms)
			m.MTI("0100")
			if err := m.Marshal(structPtr([]reflect.StructField{tagged("F", bad.Type(), key)}, []reflect.Value{bad}).Interface()); err == nil {
				continue
			}
			if _, listed := m.GetFields()[id]; listed {
				continue
			}
			if err := m.Marshal(structPtr([]reflect.StructField{tagged("F", good.Type(), key)}, []reflect.Value{good}).Interface()); err != nil {
				continue
			}
			if mc, ok := m.GetField(id).(*field.Composite); ok {
				if _, there := mc.GetSubfields()[t1]; there {
					return []Finding{{"c14-failed-write-resurrected", fmt.Sprintf("Marshal into element %d failed at subfield %s after writing subfield %s (the element stayed unpopulated); a later Marshal that writes only %s shows %s as well", id, t2, t1, t2, t1)}}
				}
			}
		}
		// (1j) the same through UnmarshalJSON. The keys of a JSON object are applied in the order of a Go map, which is
		// random: the document is tried on new messages until the failure has come after the first subfield (eight
		// tries; when the library leaves nothing behind no try can produce a finding)
		if t1, t2, ok := twoPrims(c); ok {
			j1, ok1 := validJSONFor(c.Spec().Subfields[t1])
			j2, ok2 := validJSONFor(c.Spec().Subfields[t2])
			if ok1 && ok2 {
				for try := 0; try < 8; try++ {
					m := iso8583.NewMessage(ms)
					m.MTI("0100")
					if err := m.UnmarshalJSON([]byte(fmt.Sprintf(`{"%d":{%q:%s,%q:{"x":1}}}`, id, t1, j1, t2))); err == nil {
						break
					}
					if _, listed := m.GetFields()[id]; listed {
						break
					}
					if err := m.UnmarshalJSON([]byte(fmt.Sprintf(`{"%d":{%q:%s}}`, id, t2, j2))); err != nil {
						break
					}
					if mc, ok := m.GetField(id).(*field.Composite); ok {
						if _, there := mc.GetSubfields()[t1]; there {
							return []Finding{{"c14-failed-write-resurrected", fmt.Sprintf("UnmarshalJSON into element %d failed at subfield %s after writing subfield %s (the element stayed unpopulated); a later document that writes only %s shows %s as well", id, t2, t1, t2, t1)}}
						}
					}
				}
			}
		}
		// (2) one level down, the element already populated: the failure lies in a nested composite
		for tn, sf := range c.Spec().Subfields {
			nc, ok := sf.(*field.Composite)
			if !ok {
				continue
			}
			t1, t2, ok := twoPrims(nc)
			if !ok {
				continue
			}
			var sib string
			for t, s2 := range c.Spec().Subfields {
				if _, ok := validValueFor(s2); ok && t != tn {
					sib = t
				}
			}
			if sib == "" {
				continue
			}
			vs, _ := validValueFor(c.Spec().Subfields[sib])
			v1, _ := validValueFor(nc.Spec().Subfields[t1])
			v2, _ := validValueFor(nc.Spec().Subfields[t2])
			wrap := func(inner reflect.Value) interface{} {
				mid := structPtr([]reflect.StructField{tagged("C", inner.Type(), tn)}, []reflect.Value{inner})
				return structPtr([]reflect.StructField{tagged("F", mid.Type(), key)}, []reflect.Value{mid}).Interface()
			}
			first := structPtr([]reflect.StructField{tagged("S", vs.Type(), sib)}, []reflect.Value{vs})
			bad := structPtr([]reflect.StructField{tagged("A", v1.Type(), t1), tagged("B", reflect.TypeOf(1.5), t2)}, []reflect.Value{v1, reflect.ValueOf(1.5)})
			good := structPtr([]reflect.StructField{tagged("B", v2.Type(), t2)}, []reflect.Value{v2})
			m := iso8583.NewMessage(ms)
			m.MTI("0100")
			if err := m.Marshal(structPtr([]reflect.StructField{tagged("F", first.Type(), key)}, []reflect.Value{first}).Interface()); err != nil {
				continue
			}
			if err := m.Marshal(wrap(bad)); err == nil {
				continue
			}
			if err := m.Marshal(wrap(good)); err != nil {
				continue
			}
			if mc, ok := m.GetField(id).(*field.Composite); ok {
				if inner, ok := mc.GetSubfields()[tn].(*field.Composite); ok {
					if _, there := inner.GetSubfields()[t1]; there {
						return []Finding{{"c14-failed-write-resurrected", fmt.Sprintf("Marshal into subfield %d.%s failed at %s after writing %s (the subfield stayed unpopulated); a later Marshal that writes only %s shows %s as well", id, tn, t2, t1, t2, t1)}}
					}
				}
			}
			// (2j) the same through UnmarshalJSON (tried up to eight times: the key order of an object is random)
			js, oks := validJSONFor(c.Spec().Subfields[sib])
			j1, ok1 := validJSONFor(nc.Spec().Subfields[t1])
			j2, ok2 := validJSONFor(nc.Spec().Subfields[t2])
			for try := 0; oks && ok1 && ok2 && try < 8; try++ {
				m := iso8583.NewMessage(ms)
				m.MTI("0100")
				if err := m.UnmarshalJSON([]byte(fmt.Sprintf(`{"%d":{%q:%s}}`, id, sib, js))); err != nil {
					break
				}
				if err := m.UnmarshalJSON([]byte(fmt.Sprintf(`{"%d":{%q:{%q:%s,%q:{"x":1}}}}`, id, tn, t1, j1, t2))); err == nil {
					break
				}
				if err := m.UnmarshalJSON([]byte(fmt.Sprintf(`{"%d":{%q:{%q:%s}}}`, id, tn, t2, j2))); err != nil {
					break
				}
				if mc, ok := m.GetField(id).(*field.Composite); ok {
					if inner, ok := mc.GetSubfields()[tn].(*field.Composite); ok {
						if _, there := inner.GetSubfields()[t1]; there {
							return []Finding{{"c14-failed-write-resurrected", fmt.Sprintf("UnmarshalJSON into subfield %d.%s failed at %s after writing %s (the subfield stayed unpopulated); a later document that writes only %s shows %s as well", id, tn, t2, t1, t2, t1)}}
						}
					}
				}
			}
			break
		}
	}
	return nil
}
