package main

// SplitMix64: every random choice of the harness derives from one state seeded by VERIF_SEED.
type Rng struct{ s uint64 }

func NewRng(seed uint64) *Rng { return &Rng{seed*0x9E3779B97F4A7C15 + 0x1234567} }

func (r *Rng) U64() uint64 {
	r.s += 0x9E3779B97F4A7C15
	z := r.s
	z = (z ^ (z >> 30)) * 0xBF58476D1CE4E5B9
	z = (z ^ (z >> 27)) * 0x94D049BB133111EB
	return z ^ (z >> 31)
}
func (r *Rng) Intn(n int) int {
	if n <= 0 {
		return 0
	}
	return int(r.U64() % uint64(n))
}
func (r *Rng) Range(lo, hi int) int     { return lo + r.Intn(hi-lo+1) }
func (r *Rng) Bool() bool               { return r.U64()&1 == 1 }
func (r *Rng) Chance(num, den int) bool { return r.Intn(den) < num }
func (r *Rng) Bytes(n int) []byte {
	b := make([]byte, n)
	for i := range b {
		b[i] = byte(r.U64())
	}
	return b
}
func (r *Rng) From(alpha []byte, n int) []byte {
	b := make([]byte, n)
	for i := range b {
		b[i] = alpha[r.Intn(len(alpha))]
	}
	return b
}
func Pick[T any](r *Rng, xs []T) T { return xs[r.Intn(len(xs))] }
