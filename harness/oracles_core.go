package main

import (
	"bytes"
	"errors"
	"fmt"
	"sort"
	"strings"

	"github.com/moov-io/iso8583"
	iso8583errors "github.com/moov-io/iso8583/errors"
	"github.com/moov-io/iso8583/field"
)

// ---- helpers: the property's notions evaluated on the real library ----

// fieldRoundTrip: C01 for one field object populated with v
func fieldRoundTrip(spec, v *Sx) []Finding {
	f := buildField(spec)
	applyVal(f, v)
	packed, err := f.Pack()
	if err != nil {
		return nil // outside "on which Pack succeeds"
	}
	want := showVal(f)
	var fs []Finding
	for _, trail := range [][]byte{nil, {0x30}, {0xff, 0x00, 0x31}} {
		g := buildField(spec)
		n, err := g.Unpack(append(append([]byte(nil), packed...), trail...))
		if err != nil {
			return append(fs, Finding{"c01-unpack-fails", fmt.Sprintf("Unpack rejects the bytes Pack produced: %v", safeErr(err))})
		}
		if n != len(packed) {
			return append(fs, Finding{"c01-consumed", fmt.Sprintf("Unpack consumed %d bytes, Pack produced %d", n, len(packed))})
		}
		if got := showVal(g); got != want {
			return append(fs, Finding{"c01-value", fmt.Sprintf("unpacked value %s differs from the packed value %s", clip(got), clip(want))})
		}
		re, err := g.Pack()
		if err != nil || !bytes.Equal(re, packed) {
			return append(fs, Finding{"c01-repack", "packing the unpacked field does not return the identical bytes"})
		}
	}
	return fs
}

func clip(s string) string {
	if len(s) > 160 {
		return s[:160] + "..."
	}
	return s
}

// never put raw values into findings beyond a short clip; errors are shown by type only
func safeErr(err error) string {
	s := err.Error()
	if len(s) > 100 {
		s = s[:100]
	}
	return strings.ReplaceAll(strings.ReplaceAll(s, "\t", " "), "\n", " ")
}

// nonASCII1047 reports whether a text field encoded in EBCDIC1047 holds a character outside ASCII: the
// encoder works on UTF-8, so such a value is longer in bytes than in wire units (known finding F26)
func nonASCII1047(spec *Sx, f field.Field) bool {
	switch spec.Head() {
	case "P":
		if spec.List[2].Atom != "EBCDIC1047" {
			return false
		}
		s, _ := f.String()
		if b, ok := f.(*field.Binary); ok {
			s = string(b.Value())
		}
		for i := 0; i < len(s); i++ {
			if s[i] >= 0x80 {
				return true
			}
		}
	case "C":
		c, ok := f.(*field.Composite)
		if !ok {
			return false
		}
		subs := c.GetSubfields()
		for _, e := range spec.List[4].List {
			if sf, ok := subs[string(e.List[0].Hex())]; ok && nonASCII1047(e.List[1], sf) {
				return true
			}
		}
	}
	return false
}

func tagFindings(fs []Finding, suffix string) []Finding {
	for i := range fs {
		fs[i].Key += suffix
	}
	return fs
}

// fieldCanon: C02 for one field and one byte string
func fieldCanon(spec *Sx, d []byte) (accepted bool, fs []Finding) {
	f := buildField(spec)
	if _, err := f.Unpack(append([]byte(nil), d...)); err != nil {
		return false, nil
	}
	if nonASCII1047(spec, f) {
		defer func() { fs = tagFindings(fs, ":ebcdic1047-non-ascii") }()
	}
	v1 := showVal(f)
	b1, err := f.Pack()
	if err != nil {
		return true, []Finding{{"c02-pack-fails", fmt.Sprintf("Unpack accepted the bytes but Pack fails on the result: %v", safeErr(err))}}
	}
	g := buildField(spec)
	n, err := g.Unpack(append([]byte(nil), b1...))
	if err != nil {
		return true, []Finding{{"c02-repacked-rejected", "the re-packed bytes are rejected"}}
	}
	if n != len(b1) {
		return true, []Finding{{"c02-repacked-consumed", "the re-packed bytes are not consumed exactly"}}
	}
	if showVal(g) != v1 {
		return true, []Finding{{"c02-value-changes", fmt.Sprintf("re-packed bytes decode to %s, the first decode gave %s", clip(showVal(g)), clip(v1))}}
	}
	b2, err := g.Pack()
	if err != nil || !bytes.Equal(b1, b2) {
		return true, []Finding{{"c02-not-fixed-point", "re-encoding twice differs from re-encoding once"}}
	}
	return true, nil
}

func msgObserve(m *iso8583.Message) string {
	fields := m.GetFields()
	var parts []string
	ids := sortedIDs(fields)
	for _, id := range ids {
		if id < 2 {
			if id == 0 {
				parts = append(parts, "(0 "+showVal(fields[0])+")")
			}
			continue
		}
		parts = append(parts, fmt.Sprintf("(%d %s)", id, showVal(fields[id])))
	}
	return strings.Join(parts, " ")
}

func sortedKeys(m map[string]field.Field) []string {
	ks := make([]string, 0, len(m))
	for k := range m {
		ks = append(ks, k)
	}
	sort.Strings(ks)
	return ks
}

func sortedIDs(m map[int]field.Field) []int {
	var ids []int
	for id := range m {
		ids = append(ids, id)
	}
	for i := 1; i < len(ids); i++ {
		for j := i; j > 0 && ids[j] < ids[j-1]; j-- {
			ids[j], ids[j-1] = ids[j-1], ids[j]
		}
	}
	return ids
}

func msgCanon(spec *Sx, d []byte) (accepted bool, fs []Finding) {
	ms := buildMessageSpec(spec)
	m := iso8583.NewMessage(ms)
	if err := m.Unpack(append([]byte(nil), d...)); err != nil {
		return false, nil
	}
	{
		a := spec.Args()
		bad := nonASCII1047(a[0], m.GetField(0))
		for _, ft := range a[2].List {
			if f, ok := m.GetFields()[ft.List[0].Int()]; ok && nonASCII1047(ft.List[1], f) {
				bad = true
			}
		}
		if bad {
			defer func() { fs = tagFindings(fs, ":ebcdic1047-non-ascii") }()
		}
	}
	v1 := msgObserve(m)
	b1, err := m.Pack()
	if err != nil {
		return true, []Finding{{"c02-pack-fails", fmt.Sprintf("Unpack accepted the message but Pack fails on the result: %v", safeErr(err))}}
	}
	g := iso8583.NewMessage(ms)
	if err := g.Unpack(append([]byte(nil), b1...)); err != nil {
		return true, []Finding{{"c02-repacked-rejected", "the re-packed message is rejected"}}
	}
	if msgObserve(g) != v1 {
		return true, []Finding{{"c02-value-changes", "the re-packed message decodes to different fields"}}
	}
	b2, err := g.Pack()
	if err != nil || !bytes.Equal(b1, b2) {
		return true, []Finding{{"c02-not-fixed-point", "re-encoding twice differs from re-encoding once"}}
	}
	return true, nil
}

// message built by the set-ops of a case
func msgFromOps(spec *Sx, ops []*Sx) (*iso8583.Message, *iso8583.MessageSpec) {
	ms := buildMessageSpec(spec)
	m := iso8583.NewMessage(ms)
	for _, o := range ops {
		switch o.Head() {
		case "mti", "setval", "field":
			runOneMsgOp(m, o)
		default:
			return m, ms
		}
	}
	return m, ms
}

func runOneMsgOp(m *iso8583.Message, o *Sx) {
	switch o.Head() {
	case "mti":
		m.MTI(string(o.List[1].Hex()))
	case "field":
		m.BinaryField(o.List[1].Int(), o.List[2].Hex())
	case "setval":
		id := o.List[1].Int()
		if _, isComp := m.GetField(id).(*field.Composite); isComp {
			marshalOne(m, fmt.Sprint(id), leafFieldValue(A("x")))
			applyVal(m.GetField(id), o.List[2])
		} else {
			marshalOne(m, fmt.Sprint(id), leafFieldValue(o.List[2]))
		}
	}
}

// unrepresentable ids of a message spec (DESIGN.md section 2.1: such specs are bitmap-deficient and only C05 speaks about them)
func unrepresentableIDs(spec *Sx) map[int]string {
	a := spec.Args()
	B, auto := a[1].List[0].Int(), a[1].List[1].Bool()
	if B == 0 {
		B = 8 // Length 0 is the default block of 8 bytes
	}
	out := map[int]string{}
	for _, ft := range a[2].List {
		id := ft.List[0].Int()
		if auto && id%(8*B) == 1 {
			out[id] = "presence-bit"
		}
		if !auto && id > 8*B {
			out[id] = "beyond-fixed-bitmap"
		}
	}
	return out
}

func msgRoundTrip(spec *Sx, ops []*Sx) (nontrivial bool, fs []Finding) {
	if len(unrepresentableIDs(spec)) > 0 {
		return false, nil
	}
	m, ms := msgFromOps(spec, ops)
	packed, err := m.Pack()
	if err != nil {
		return false, nil
	}
	want := msgObserve(m)
	g := iso8583.NewMessage(ms)
	if err := g.Unpack(append([]byte(nil), packed...)); err != nil {
		return true, []Finding{{"c01-msg-unpack-fails", fmt.Sprintf("Unpack rejects the message Pack produced: %v", safeErr(err))}}
	}
	if got := msgObserve(g); got != want {
		return true, []Finding{{"c01-msg-value", fmt.Sprintf("unpacked message %s differs from the packed one %s", clip(got), clip(want))}}
	}
	re, err := g.Pack()
	if err != nil || !bytes.Equal(re, packed) {
		return true, []Finding{{"c01-msg-repack", "packing the unpacked message does not return the identical bytes"}}
	}
	return strings.Count(want, "(") > 2, nil
}

func firstOpArg(ops []*Sx, head string) *Sx {
	for _, o := range ops {
		if o.Head() == head {
			return o.List[1]
		}
	}
	return nil
}

func init() {
	// ---- C01 ----
	regCheck("C01", "fld", func(a []*Sx) (bool, []Finding) {
		v := firstOpArg(a[1].List, "set")
		if v == nil {
			return false, nil
		}
		fs := fieldRoundTrip(a[0], v)
		return true, fs
	})
	regCheck("C01", "msg", func(a []*Sx) (bool, []Finding) {
		if firstOpArg(a[1].List, "setval") == nil {
			return false, nil
		}
		return msgRoundTrip(a[0], a[1].List)
	})
	// ---- C02 ----
	regCheck("C02", "fld", func(a []*Sx) (bool, []Finding) {
		d := firstOpArg(a[1].List, "unpack")
		if d == nil {
			return false, nil
		}
		return fieldCanon(a[0], d.Hex())
	})
	regCheck("C02", "msg", func(a []*Sx) (bool, []Finding) {
		d := firstOpArg(a[1].List, "unpack")
		if d == nil {
			return false, nil
		}
		return msgCanon(a[0], d.Hex())
	})
	// ---- C04: whatever the bytes, decoding returns normally ----
	c04 := func(kind string) propCheck {
		return func(a []*Sx) (nontrivial bool, fs []Finding) {
			d := firstOpArg(a[1].List, "unpack")
			if d == nil {
				return false, nil
			}
			defer func() {
				if r := recover(); r != nil {
					fs = append(fs, Finding{"c04-panic:" + kind, fmt.Sprintf("decoding panicked: %v", clip(fmt.Sprint(r)))})
				}
			}()
			if kind == "fld" {
				f := buildField(a[0])
				_, err := f.Unpack(d.Hex())
				if c, ok := f.(*field.Composite); ok {
					c.SetBytes(d.Hex())
				}
				return err == nil || len(d.Hex()) > 4, nil
			}
			m := iso8583.NewMessage(buildMessageSpec(a[0]))
			err := m.Unpack(d.Hex())
			return err == nil || len(d.Hex()) > 8, nil
		}
	}
	regCheck("C04", "fld", c04("fld"))
	regCheck("C04", "msg", c04("msg"))
	// ---- C10: Unpack result independent of prior state ----
	regCheck("C10", "fld", func(a []*Sx) (bool, []Finding) {
		// history = every op before the last unpack
		ops := a[1].List
		last := -1
		for i, o := range ops {
			if o.Head() == "unpack" {
				last = i
			}
		}
		if last <= 0 {
			return false, nil
		}
		used := buildField(a[0])
		for _, o := range ops[:last] {
			switch o.Head() {
			case "set":
				applyVal(used, o.List[1])
			case "unpack":
				used.Unpack(o.List[1].Hex())
			case "setbytes":
				used.SetBytes(o.List[1].Hex())
			case "reset":
				used = buildField(a[0])
			}
		}
		d := ops[last].List[1].Hex()
		fresh := buildField(a[0])
		n1, e1 := used.Unpack(append([]byte(nil), d...))
		n2, e2 := fresh.Unpack(append([]byte(nil), d...))
		if (e1 == nil) != (e2 == nil) {
			return true, []Finding{{"c10-accept-differs", "the same bytes are accepted by a fresh object and rejected by a used one (or vice versa)"}}
		}
		if e1 != nil {
			return false, nil
		}
		var fs []Finding
		if n1 != n2 || showVal(used) != showVal(fresh) {
			fs = append(fs, Finding{"c10-value", fmt.Sprintf("after Unpack a used object shows %s, a fresh one %s", clip(showVal(used)), clip(showVal(fresh)))})
		}
		p1, pe1 := used.Pack()
		p2, pe2 := fresh.Pack()
		if (pe1 == nil) != (pe2 == nil) || !bytes.Equal(p1, p2) {
			fs = append(fs, Finding{"c10-repack", "after Unpack a used object re-packs differently from a fresh one"})
		}
		return true, fs
	})
	regCheck("C10", "msg", func(a []*Sx) (bool, []Finding) {
		ops := a[1].List
		last := -1
		for i, o := range ops {
			if o.Head() == "unpack" {
				last = i
			}
		}
		if last <= 0 {
			return false, nil
		}
		ms := buildMessageSpec(a[0])
		used := iso8583.NewMessage(ms)
		for _, o := range ops[:last] {
			switch o.Head() {
			case "mti", "field", "setval":
				runOneMsgOp(used, o)
			case "unpack":
				used.Unpack(o.List[1].Hex())
			case "unset":
				used.UnsetField(o.List[1].Int())
			case "pack":
				used.Pack()
			}
		}
		d := ops[last].List[1].Hex()
		fresh := iso8583.NewMessage(ms)
		e1 := used.Unpack(append([]byte(nil), d...))
		e2 := fresh.Unpack(append([]byte(nil), d...))
		if (e1 == nil) != (e2 == nil) {
			return true, []Finding{{"c10-accept-differs", "the same message is accepted by a fresh object and rejected by a used one (or vice versa)"}}
		}
		if e1 != nil {
			return false, nil
		}
		var fs []Finding
		if msgObserve(used) != msgObserve(fresh) {
			fs = append(fs, Finding{"c10-value", fmt.Sprintf("after Unpack a used message shows %s, a fresh one %s", clip(msgObserve(used)), clip(msgObserve(fresh)))})
		}
		p1, pe1 := used.Pack()
		p2, pe2 := fresh.Pack()
		if (pe1 == nil) != (pe2 == nil) || !bytes.Equal(p1, p2) {
			fs = append(fs, Finding{"c10-repack", "after Unpack a used message re-packs differently from a fresh one"})
		}
		j1, je1 := used.MarshalJSON()
		j2, je2 := fresh.MarshalJSON()
		if (je1 == nil) != (je2 == nil) || !bytes.Equal(j1, j2) {
			fs = append(fs, Finding{"c10-json", "after Unpack a used message encodes to different JSON than a fresh one"})
		}
		return true, fs
	})
}

var _ = errors.New
var _ = iso8583errors.PackError{}

func init() {
	// C04 at decoder level: no panic whatever the bytes / announced length
	regCheck("C04", "enc.dec", func(a []*Sx) (nt bool, fs []Finding) {
		defer func() {
			if r := recover(); r != nil {
				fs = append(fs, Finding{"c04-panic:enc.dec:" + a[0].Atom, fmt.Sprintf("Decode panicked: %v", clip(fmt.Sprint(r)))})
			}
		}()
		encoders[a[0].Atom].Decode(a[2].Hex(), a[1].Int())
		return true, nil
	})
	regCheck("C04", "pref.dec", func(a []*Sx) (nt bool, fs []Finding) {
		defer func() {
			if r := recover(); r != nil {
				fs = append(fs, Finding{"c04-panic:pref.dec:" + a[0].Atom, fmt.Sprintf("DecodeLength panicked: %v", clip(fmt.Sprint(r)))})
			}
		}()
		prefixers[a[0].Atom].DecodeLength(a[1].Int(), a[2].Hex())
		return true, nil
	})
}
