#!/bin/sh
# Build the whole framework offline from files on disk: Go harness, generated Gallina, the Rocq
# development (full .vo build), the extracted OCaml runner.
set -e
cd "$(dirname "$0")"
exec ./check build
