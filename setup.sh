#!/bin/sh
# Build the whole framework offline from files on disk: Go harness, generated Gallina, the Rocq
# development (full .vo build), the extracted OCaml runner.
set -e
cd "$(dirname "$0")"
export GOFLAGS=-mod=mod GOPROXY=off GOSUMDB=off GOTOOLCHAIN=local
python3 - <<'PY'
import sys, os
sys.argv = ["check"]
import importlib.machinery, importlib.util
loader = importlib.machinery.SourceFileLoader("check", os.path.join(os.getcwd(), "check"))
spec = importlib.util.spec_from_loader("check", loader)
m = importlib.util.module_from_spec(spec); loader.exec_module(m)
os.makedirs(m.WORK, exist_ok=True)
m.build_harness(); m.regenerate(); m.write_coqproject()
rc, out = m.coq_make([])
print(out[-2000:])
if rc != 0: sys.exit(1)
m.build_runner()
PY
