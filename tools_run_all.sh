#!/bin/sh
# usage: tools_run_all.sh <tier> <out-file>  -- runs every registered check on the current tree
tier=${1:-quick}; out=${2:-/tmp/runall.txt}; : > $out
cd /verif
for p in C01 C02 C03 C04 C05 C06 C07 C08 C09 C10 C11 C12 C13 C14 C15 C16 C17 C18 C19 C20; do
  ./check $p $tier > /tmp/runall_$p.log 2>&1; rc=$?
  echo "$p rc=$rc $(grep -E "$p $tier:" /tmp/runall_$p.log | cut -c1-200) $(grep -c VIOLATION /tmp/runall_$p.log) violations" >> $out
done
