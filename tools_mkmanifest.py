#!/usr/bin/env python3
"""Regenerates MANIFEST.json from checklib/props.py and checklib/manifest_text.py."""
import json, sys, os
sys.path.insert(0, os.path.join(os.path.dirname(os.path.abspath(__file__)), "checklib"))
from props import PROPS
from manifest_text import TEXT, NOT_APPLICABLE, NOTES

checks = []
for pid in sorted(PROPS):
    t = TEXT[pid]
    checks.append({
        "property_id": pid,
        "quick_cmd": "./check %s quick" % pid,
        "thorough_cmd": "./check %s thorough" % pid,
        "evidence_file": "/verif/evidence/%s.json" % pid,
        "replay_cmd_template": "./check %s --replay {path}" % pid,
        "engine": "rocq-model",
        "level_claimed": {"category": t.get("category", "proof"), "text": t["text"], "design_ref": t["design_ref"]},
        "level_note": t["note"],
        "technique": t["technique"],
    })
m = {
    "version": 1,
    "setup_cmd": "./setup.sh",
    "hooks": {
        "guard": "verif",
        "enable": "go build -tags verif (harness module with replace github.com/moov-io/iso8583 => /repo)",
        "baseline_off_cmd": "cd /repo && GOFLAGS=-mod=mod GOPROXY=off GOSUMDB=off go test -vet=off -count=1 ./...",
        "source_commits": [],
        "add_only": True,
    },
    "engines": [{"name": "rocq-model", "path": "/verif/coq", "serves_properties": sorted(PROPS),
                 "kind_free_text": "Rocq (Coq 8.16.1) implementation model + theorems; tied to /repo by translator-generated Gallina and a correspondence check (extracted OCaml runner + in-kernel vm_compute slice) against the Go library"}],
    "checks": checks,
    "notes": NOTES,
    "not_applicable": [{"property_id": p, "reason": r} for p, r in sorted(NOT_APPLICABLE.items()) if p not in PROPS],
}
json.dump(m, open(os.path.join(os.path.dirname(os.path.abspath(__file__)), "MANIFEST.json"), "w"), indent=1)
print("checks:", len(checks), "not_applicable:", len(m["not_applicable"]))
